use avt::Vt;
fn show(v: &Vt) { for l in v.view() { println!("  {:?}", l); } println!("  cursor {:?} lines {}", v.cursor(), v.lines().len()); }
fn main() {
    let mut o = Vt::new(4,5); o.resize(4,6); o.feed_str("CCA\x1b[0;0rA\x1b[?1047h"); o.resize(11,3);
    let d = o.dump(); println!("{:?}", d);
    let mut r = Vt::new(11,3); r.feed_str(&d);
    o.feed_str("\x1b[?1047l"); r.feed_str("\x1b[?1047l");
    println!("orig"); show(&o); println!("rest"); show(&r);
}
