use avt_verif::{props, src::Src, engine::Tally, case::Verdict, src::mix, src::hash_str};
fn main() {
    let h = hash_str("random-sgr-sequences");
    let mut n = 0;
    for i in 0..120000u64 {
        let mut src = Src::rng(mix(0, h, i));
        let c = props::c08::gen_case(&mut src, 0);
        let mut t = Tally::default();
        if let Verdict::Invalid(m) = props::c08::judge("", &c, &mut t) { n += 1; if n <= 5 { println!("{} :: {}", m, c.render()); } }
    }
    println!("{}", n);
}
