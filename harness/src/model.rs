//! Reference terminal semantics, one step at a time, from an observed pre-state.
use crate::reffn::*;
use std::collections::BTreeSet;

#[derive(Debug, Clone, Copy, PartialEq, Eq, Hash, Default)]
pub struct PenSpec { pub fg: Option<RefColor>, pub bg: Option<RefColor>, pub bold: bool, pub faint: bool, pub italic: bool, pub underline: bool, pub strike: bool, pub blink: bool, pub inverse: bool }

impl PenSpec {
    pub fn of(p: &avt::Pen) -> Self {
        let col = |c: avt::Color| match c { avt::Color::Indexed(i) => RefColor::Idx(i), avt::Color::RGB(c) => RefColor::Rgb(c.r, c.g, c.b) };
        PenSpec { fg: p.foreground().map(col), bg: p.background().map(col), bold: p.is_bold(), faint: p.is_faint(), italic: p.is_italic(),
            underline: p.is_underline(), strike: p.is_strikethrough(), blink: p.is_blink(), inverse: p.is_inverse() }
    }
    pub fn apply(&mut self, it: &SgrItem) {
        use SgrItem::*;
        match it {
            Reset => *self = PenSpec::default(), Bold => { self.bold = true; self.faint = false; } Faint => { self.faint = true; self.bold = false; }
            Italic => self.italic = true, Underline => self.underline = true, Blink => self.blink = true, Inverse => self.inverse = true, Strike => self.strike = true,
            NoIntensity => { self.bold = false; self.faint = false; } NoItalic => self.italic = false, NoUnderline => self.underline = false,
            NoBlink => self.blink = false, NoInverse => self.inverse = false, NoStrike => self.strike = false,
            Fg(c) => self.fg = Some(*c), NoFg => self.fg = None, Bg(c) => self.bg = Some(*c), NoBg => self.bg = None,
        }
    }
}

pub type CellSpec = (char, PenSpec);

#[derive(Debug, Clone, PartialEq)]
pub struct Screen { pub cols: usize, pub rows: usize, pub cells: Vec<Vec<CellSpec>>, pub wraps: Vec<bool>, pub col: usize, pub row: usize }

pub fn wrapped(l: &avt::Line) -> bool { avt::util::TextUnwrapper::new().push(l).is_none() }
pub fn row_of(l: &avt::Line) -> Vec<CellSpec> { l.cells().iter().map(|c| (c.char(), PenSpec::of(c.pen()))).collect() }

impl Screen {
    pub fn observe(vt: &avt::Vt) -> Self {
        let (cols, rows) = vt.size(); let c = vt.cursor();
        Screen { cols, rows, cells: vt.view().iter().map(row_of).collect(), wraps: vt.view().iter().map(wrapped).collect(), col: c.col, row: c.row }
    }
}

#[derive(Debug, Clone, Copy, PartialEq)]
pub struct Saved { pub col: usize, pub row: usize, pub pen: PenSpec, pub origin: bool, pub autowrap: bool }
impl Default for Saved { fn default() -> Self { Saved { col: 0, row: 0, pen: PenSpec::default(), origin: false, autowrap: true } } }

#[derive(Debug, Clone, PartialEq)]
pub struct Modes {
    pub cols: usize, pub rows: usize, pub pen: PenSpec, pub g: [bool; 2], pub gl: usize, pub insert: bool, pub origin: bool, pub autowrap: bool,
    pub newline: bool, pub top: usize, pub bot: usize, pub tabs: BTreeSet<usize>, pub saved: [Saved; 2], pub alt: bool, pub app_keys: bool, pub visible: bool,
}

pub const GFX: [char; 31] = ['♦','▒','␉','␌','␍','␊','°','±','␤','␋','┘','┐','┌','└','┼','⎺','⎻','─','⎼','⎽','├','┤','┴','┬','│','≤','≥','π','≠','£','⋅'];

#[derive(Debug, Clone, Default)]
pub struct Effect { pub scrolled_off: Vec<(Vec<CellSpec>, bool)>, pub cleared_screen_switch: bool, pub ris: bool,
    /// the property statements do not say where the cursor ends up (invalid DECSTBM)
    pub cursor_unspecified: bool,
    /// only the row is specified (IL/DL)
    pub col_unspecified: bool,
    /// the function scrolled (count >= 1 on a non-empty range)
    pub scrolled: Option<(usize, usize, usize, bool)> }

fn default_tabs(cols: usize) -> BTreeSet<usize> { (1..).map(|k| k * 8).take_while(|t| *t < cols).collect() }

impl Modes {
    pub fn new(cols: usize, rows: usize) -> Self {
        Modes { cols, rows, pen: PenSpec::default(), g: [false; 2], gl: 0, insert: false, origin: false, autowrap: true, newline: false, top: 0, bot: rows - 1,
            tabs: default_tabs(cols), saved: [Saved::default(); 2], alt: false, app_keys: false, visible: true }
    }
    fn cur_saved(&mut self) -> &mut Saved { let i = self.alt as usize; &mut self.saved[i] }

    pub fn resize(&mut self, cols: usize, rows: usize) {
        if cols < self.cols { self.tabs = self.tabs.iter().copied().filter(|t| *t < cols).collect(); }
        if cols > self.cols { let mut t = (self.cols + 7) / 8 * 8; while t < cols { if t > 0 { self.tabs.insert(t); } t += 8; } }
        if rows != self.rows { self.top = 0; self.bot = rows - 1; }
        self.cols = cols; self.rows = rows;
        let s = self.cur_saved(); s.col = s.col.min(cols - 1); s.row = s.row.min(rows - 1);
    }
}

fn blank_row(cols: usize, pen: PenSpec) -> Vec<CellSpec> { vec![(' ', pen); cols] }

fn scroll_up(s: &mut Screen, m: &Modes, top: usize, bot: usize, n: usize, eff: &mut Effect) {
    let h = bot - top + 1; let n = n.min(h);
    if bot < s.rows - 1 { s.wraps[bot] = false; }
    if top > 0 { s.wraps[top - 1] = false; }
    for k in 0..n { if top == 0 && !m.alt { eff.scrolled_off.push((s.cells[top + k].clone(), s.wraps[top + k])); } }
    for r in top..=bot {
        if r + n <= bot { s.cells[r] = s.cells[r + n].clone(); s.wraps[r] = s.wraps[r + n]; }
        else { s.cells[r] = blank_row(s.cols, m.pen); s.wraps[r] = false; }
    }
}

fn scroll_down(s: &mut Screen, m: &Modes, top: usize, bot: usize, n: usize) {
    let h = bot - top + 1; let n = n.min(h);
    for r in (top..=bot).rev() {
        if r >= top + n { s.cells[r] = s.cells[r - n].clone(); s.wraps[r] = s.wraps[r - n]; }
        else { s.cells[r] = blank_row(s.cols, m.pen); s.wraps[r] = false; }
    }
    if top > 0 { s.wraps[top - 1] = false; }
    s.wraps[bot] = false;
}

fn dflt(n: u16, d: usize) -> usize { if n == 0 { d } else { n as usize } }

fn set_col(s: &mut Screen, col: usize) { s.col = col.min(s.cols - 1); }
fn set_row_abs(s: &mut Screen, row: usize) { s.col = s.col.min(s.cols - 1); s.row = row; }
fn set_row_addr(s: &mut Screen, m: &Modes, row: usize) {
    let (t, b) = if m.origin { (m.top, m.bot) } else { (0, s.rows - 1) };
    set_row_abs(s, (t + row).min(b));
}
fn up(s: &mut Screen, m: &Modes, n: usize) { let lim = if s.row < m.top { 0 } else { m.top }; let r = s.row.saturating_sub(n).max(lim); set_row_abs(s, r); }
fn down(s: &mut Screen, m: &Modes, n: usize) { let lim = if s.row > m.bot { s.rows - 1 } else { m.bot }; let r = (s.row + n).min(lim); set_row_abs(s, r); }
fn rel_col(s: &mut Screen, d: isize) { let c = s.col as isize + d; s.col = c.clamp(0, s.cols as isize - 1) as usize; }
fn home(s: &mut Screen, m: &Modes) { s.col = 0; s.row = if m.origin { m.top } else { 0 }; }
fn lf(s: &mut Screen, m: &Modes, eff: &mut Effect) {
    if s.row == m.bot { scroll_up(s, m, m.top, m.bot, 1, eff); eff.scrolled = Some((m.top, m.bot, 1, true)); } else if s.row < s.rows - 1 { set_row_abs(s, s.row + 1); }
}
fn next_tab(s: &mut Screen, m: &Modes, n: usize) { let t = m.tabs.iter().copied().filter(|t| *t > s.col).nth(n - 1).unwrap_or(s.cols - 1); set_col(s, t); }
fn prev_tab(s: &mut Screen, m: &Modes, n: usize) { let t = m.tabs.iter().rev().copied().filter(|t| *t < s.col).nth(n - 1).unwrap_or(0); set_col(s, t); }

fn print(s: &mut Screen, m: &Modes, c: char, eff: &mut Effect) {
    let ch = if m.g[m.gl] && ('\u{60}'..='\u{7e}').contains(&c) { GFX[c as usize - 0x60] } else { c };
    if m.autowrap && s.col == s.cols {
        s.col = 0;
        if s.row == m.bot { s.wraps[s.row] = true; scroll_up(s, m, m.top, m.bot, 1, eff); eff.scrolled = Some((m.top, m.bot, 1, true)); }
        else if s.row < s.rows - 1 { s.wraps[s.row] = true; s.row += 1; }
    }
    if s.col + 1 >= s.cols {
        let last = s.cols - 1; s.cells[s.row][last] = (ch, m.pen);
        if m.autowrap { s.col = s.cols; }
    } else {
        if m.insert { let r = &mut s.cells[s.row]; r.insert(s.col, (ch, m.pen)); r.pop(); } else { s.cells[s.row][s.col] = (ch, m.pen); }
        s.col += 1;
    }
}

/// Apply one function to the observed pre-screen `s` (mutated into the expected post-screen) and to the modes.
pub fn step(s: &mut Screen, m: &mut Modes, f: &RefFn) -> Effect {
    use RefFn::*;
    let mut eff = Effect::default();
    let pending = s.col == s.cols;
    match f {
        Print(c) => print(s, m, *c, &mut eff),
        Rep(n) => { if s.col > 0 { let ch = s.cells[s.row][s.col - 1].0; for _ in 0..dflt(*n, 1) { print(s, m, ch, &mut eff); } } }
        Bs => rel_col(s, if pending { -2 } else { -1 }),
        Ht => next_tab(s, m, 1), Cht(n) => next_tab(s, m, dflt(*n, 1)), Cbt(n) => prev_tab(s, m, dflt(*n, 1)),
        Lf => { lf(s, m, &mut eff); if m.newline { s.col = 0; } }
        Nel => { lf(s, m, &mut eff); s.col = 0; }
        Cr => s.col = 0,
        So => m.gl = 1, Si => m.gl = 0,
        Hts => { if s.col > 0 && s.col < s.cols { m.tabs.insert(s.col); } }
        Ri => { if s.row == m.top { scroll_down(s, m, m.top, m.bot, 1); eff.scrolled = Some((m.top, m.bot, 1, false)); } else if s.row > 0 { set_row_abs(s, s.row - 1); } }
        Cuu(n) => up(s, m, dflt(*n, 1)), Cud(n) | Vpr(n) => down(s, m, dflt(*n, 1)),
        Cuf(n) => rel_col(s, dflt(*n, 1) as isize), Cub(n) => rel_col(s, -(dflt(*n, 1) as isize) - pending as isize),
        Cnl(n) => { down(s, m, dflt(*n, 1)); s.col = 0; } Cpl(n) => { up(s, m, dflt(*n, 1)); s.col = 0; }
        Cha(n) => set_col(s, dflt(*n, 1) - 1),
        Cup(r, c) => { set_col(s, dflt(*c, 1) - 1); set_row_addr(s, m, dflt(*r, 1) - 1); }
        Vpa(n) => set_row_addr(s, m, dflt(*n, 1) - 1),
        Ich(n) => { if s.col < s.cols { let n = dflt(*n, 1).min(s.cols - s.col); let r = &mut s.cells[s.row]; for _ in 0..n { r.insert(s.col, (' ', m.pen)); r.pop(); } } }
        Dch(n) => { if s.col >= s.cols { s.col = s.cols - 1; } let n = dflt(*n, 1).min(s.cols - s.col); let r = &mut s.cells[s.row]; for _ in 0..n { r.remove(s.col); r.push((' ', m.pen)); } s.wraps[s.row] = false; }
        Ech(n) => { let n = dflt(*n, 1).min(s.cols - s.col.min(s.cols)); let end = s.col + n; for c in s.col..end { s.cells[s.row][c] = (' ', m.pen); } if end == s.cols { s.wraps[s.row] = false; } }
        El(k) => { let (a, b) = match k { 0 => (s.col.min(s.cols), s.cols), 1 => (0, (s.col + 1).min(s.cols)), _ => (0, s.cols) }; for c in a..b { s.cells[s.row][c] = (' ', m.pen); } if *k != 1 { s.wraps[s.row] = false; } }
        Ed(k) => match k {
            0 => { for c in s.col.min(s.cols)..s.cols { s.cells[s.row][c] = (' ', m.pen); } s.wraps[s.row] = false; for r in s.row + 1..s.rows { s.cells[r] = blank_row(s.cols, m.pen); s.wraps[r] = false; } }
            1 => { for c in 0..(s.col + 1).min(s.cols) { s.cells[s.row][c] = (' ', m.pen); } for r in 0..s.row { s.cells[r] = blank_row(s.cols, m.pen); s.wraps[r] = false; } }
            2 => { for r in 0..s.rows { s.cells[r] = blank_row(s.cols, m.pen); s.wraps[r] = false; } }
            _ => {}
        },
        Il(n) => { let bot = if s.row <= m.bot { m.bot } else { s.rows - 1 }; scroll_down(s, m, s.row, bot, dflt(*n, 1)); eff.col_unspecified = true; eff.scrolled = Some((s.row, bot, dflt(*n, 1), false)); }
        Dl(n) => { let bot = if s.row <= m.bot { m.bot } else { s.rows - 1 }; scroll_up(s, m, s.row, bot, dflt(*n, 1), &mut eff); eff.col_unspecified = true; eff.scrolled = Some((s.row, bot, dflt(*n, 1), true)); }
        Su(n) => { scroll_up(s, m, m.top, m.bot, dflt(*n, 1), &mut eff); eff.scrolled = Some((m.top, m.bot, dflt(*n, 1), true)); }
        Sd(n) => { scroll_down(s, m, m.top, m.bot, dflt(*n, 1)); eff.scrolled = Some((m.top, m.bot, dflt(*n, 1), false)); }
        Ctc(k) => match k { 0 => { if s.col > 0 && s.col < s.cols { m.tabs.insert(s.col); } } 2 => { m.tabs.remove(&s.col); } _ => m.tabs.clear() },
        Tbc(k) => match k { 0 => { m.tabs.remove(&s.col); } _ => m.tabs.clear() },
        Sm(ms) => for md in ms { match md { 4 => m.insert = true, _ => m.newline = true } },
        Rm(ms) => for md in ms { match md { 4 => m.insert = false, _ => m.newline = false } },
        Sgr(items) => for it in items { m.pen.apply(it); },
        Decstbm(t, b) => { let t = dflt(*t, 1) - 1; let b = dflt(*b, s.rows) - 1; if t < b && b < s.rows { m.top = t; m.bot = b; } else { eff.cursor_unspecified = true; } home(s, m); }
        Scosc | Decsc => save(s, m), Scorc | Decrc => restore(s, m),
        Xtwinops(..) => {}
        Decstr => { m.visible = true; m.top = 0; m.bot = s.rows - 1; m.insert = false; m.origin = false; m.pen = PenSpec::default(); m.g = [false; 2]; m.gl = 0; *m.cur_saved() = Saved::default(); }
        Decset(ms) => for md in ms { match md {
            1 => m.app_keys = true, 6 => { m.origin = true; home(s, m); } 7 => m.autowrap = true, 25 => m.visible = true,
            1047 => enter_alt(s, m, &mut eff), 1048 => save(s, m), _ => { save(s, m); enter_alt(s, m, &mut eff); } } },
        Decrst(ms) => for md in ms { match md {
            1 => m.app_keys = false, 6 => { m.origin = false; home(s, m); } 7 => m.autowrap = false, 25 => m.visible = false,
            1047 => leave_alt(m, &mut eff), 1048 => restore(s, m), _ => { leave_alt(m, &mut eff); restore(s, m); } } },
        Ris => { let (c, r) = (s.cols, s.rows); *m = Modes::new(c, r); eff.ris = true;
            s.cells = vec![blank_row(c, PenSpec::default()); r]; s.wraps = vec![false; r]; s.col = 0; s.row = 0; }
        Decaln => { for r in 0..s.rows { s.cells[r] = vec![('E', PenSpec::default()); s.cols]; } }
        Gzd4(d) => m.g[0] = *d, G1d4(d) => m.g[1] = *d,
    }
    eff
}

fn save(s: &Screen, m: &mut Modes) { let sv = Saved { col: s.col.min(s.cols - 1), row: s.row, pen: m.pen, origin: m.origin, autowrap: m.autowrap }; *m.cur_saved() = sv; }
fn restore(s: &mut Screen, m: &mut Modes) { let sv = *m.cur_saved(); s.col = sv.col; s.row = sv.row; m.pen = sv.pen; m.origin = sv.origin; m.autowrap = sv.autowrap; }
fn enter_alt(s: &mut Screen, m: &mut Modes, eff: &mut Effect) {
    if !m.alt { m.alt = true; s.cells = vec![blank_row(s.cols, m.pen); s.rows]; s.wraps = vec![false; s.rows]; eff.cleared_screen_switch = true;
        let sv = m.cur_saved(); sv.col = sv.col.min(s.cols - 1); sv.row = sv.row.min(s.rows - 1); }
}
fn leave_alt(m: &mut Modes, eff: &mut Effect) {
    if m.alt { m.alt = false; eff.cleared_screen_switch = true;
        // the saved context of the screen being re-activated is clamped to the current size
        let (c, r) = (m.cols, m.rows); let sv = m.cur_saved(); sv.col = sv.col.min(c - 1); sv.row = sv.row.min(r - 1); }
}
