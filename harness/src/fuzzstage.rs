//! Thorough-tier coverage-guided stage: builds the cargo-fuzz targets from /repo's
//! current tree, runs a fixed-work libFuzzer campaign per target, re-judges everything a
//! campaign reported with the release-build judge, and returns a part report.

use crate::case::{Case, Verdict};
use crate::engine::{judge_caught, read_replay, shrink_failure, Env, Failure, PartReport, Tally};
use crate::fuzzing;
use crate::props;
use std::path::{Path, PathBuf};
use std::process::Command;

pub struct FuzzPlan {
    pub target: &'static str,
    pub runs_per_job: u64,
    pub max_total_time: u64,
    pub jobs: usize,
}

/// targets that serve a property (every property has the structured target; some also a text target)
pub fn plans(prop: &str) -> Vec<FuzzPlan> {
    let mut v = vec![FuzzPlan { target: "structured", runs_per_job: 60_000, max_total_time: 75, jobs: 16 }];
    let text = match prop {
        "C01" | "C02" | "C13" | "C15" => Some("ops_total"),
        "C03" => Some("parser_diff"),
        "C12" => Some("chunk_split"),
        _ => None,
    };
    if let Some(t) = text {
        v.push(FuzzPlan { target: t, runs_per_job: 40_000, max_total_time: 75, jobs: 16 });
    }
    v
}

fn fuzz_dir(env: &Env) -> PathBuf {
    env.verif_dir.join("fuzz")
}

pub fn build(env: &Env) -> Result<(), String> {
    let out = Command::new("cargo")
        .args(["+nightly", "fuzz", "build", "--fuzz-dir"])
        .arg(fuzz_dir(env))
        .args(["-s", "none"])
        .env("CARGO_NET_OFFLINE", "true")
        .current_dir(fuzz_dir(env))
        .output()
        .map_err(|e| format!("cannot run cargo fuzz build: {}", e))?;
    if !out.status.success() {
        let err = String::from_utf8_lossy(&out.stderr);
        let tail: Vec<&str> = err.lines().rev().take(30).collect();
        return Err(format!("cargo +nightly fuzz build failed:\n{}", tail.into_iter().rev().collect::<Vec<_>>().join("\n")));
    }
    Ok(())
}

fn seed_corpus(_env: &Env, plan: &FuzzPlan, corpus: &Path) {
    let _ = std::fs::create_dir_all(corpus);
    if plan.target == "structured" {
        // choice sequences: start from a few constant and counting strings
        for (i, b) in [vec![0u8; 64], vec![255u8; 64], (0..=255u8).collect::<Vec<u8>>(), (0..200u8).map(|x| x.wrapping_mul(37)).collect()].iter().enumerate() {
            let _ = std::fs::write(corpus.join(format!("seed-const-{}", i)), b);
        }
        return;
    }
    // text targets: slices of the recordings shipped with the repository + a few sequences
    let data_dir = PathBuf::from("/repo/benches/data");
    if let Ok(rd) = std::fs::read_dir(&data_dir) {
        let mut files: Vec<PathBuf> = rd.filter_map(|e| e.ok().map(|e| e.path())).collect();
        files.sort();
        for (fi, f) in files.iter().enumerate() {
            if let Ok(bytes) = std::fs::read(f) {
                for k in 0..24usize {
                    let off = (k * 43_691 + fi * 7_919) % bytes.len().saturating_sub(400).max(1);
                    let mut v = vec![(k % 14) as u8, (k % 8) as u8, (k % 6) as u8];
                    v.extend_from_slice(&bytes[off..(off + 380).min(bytes.len())]);
                    let _ = std::fs::write(corpus.join(format!("seed-rec-{}-{}", fi, k)), v);
                }
            }
        }
    }
    let seqs = ["\x1b[2;3H", "\x1b[?1049h\n\n\n\x1b[?1049l", "\x1b[1;31;48;5;200mX\x1b[m", "\x1b[3;4r\x1b[?6h\n\n\n\n", "\x1b(0lqk\x1b(B", "\x1b]0;t\x07", "\x1bP1$q\x1b\\", "\x1b[5b", "\x1b[2L\x1b[2M\x1b[3S\x1b[2T", "abcdefghijklmnopqrstuvwxyz", "\x1b7\x1b[5;5H\x1b8", "\x1b[3g\x1bH\t\t\x1b[Z", "\x1b[4h\x1b[?7lxyz\x1b[4l", "\x1b#8\x1b[J", "\x1b[!p\x1bc"];
    for (i, s) in seqs.iter().enumerate() {
        let mut v = vec![(i % 14) as u8, (i % 8) as u8, (i % 6) as u8];
        v.extend_from_slice(s.as_bytes());
        // a resize segment and a per-char segment (0xFF is an invalid byte -> U+FFFD separator)
        v.extend_from_slice(&[0xff, b'R', 5, 3, 0xff, b'F']);
        v.extend_from_slice(s.as_bytes());
        let _ = std::fs::write(corpus.join(format!("seed-seq-{}", i)), v);
    }
}

pub fn run_plan(env: &Env, plan: &FuzzPlan) -> Result<PartReport, String> {
    let name = format!("libfuzzer-{}", plan.target);
    let work = env.verif_dir.join("work").join("fuzz").join(format!("{}-{}-{}", env.prop, plan.target, env.seed));
    let _ = std::fs::remove_dir_all(&work);
    let corpus = work.join("corpus");
    let artifacts = work.join("artifacts");
    std::fs::create_dir_all(&artifacts).map_err(|e| e.to_string())?;
    seed_corpus(env, plan, &corpus);
    let n_seeds = std::fs::read_dir(&corpus).map(|d| d.count()).unwrap_or(0);
    let bin = fuzz_dir(env).join("target/x86_64-unknown-linux-gnu/release").join(plan.target);
    if !bin.exists() {
        return Err(format!("fuzz binary {} missing", bin.display()));
    }
    // libFuzzer's -seed=0 means "random": remap
    let seed = (env.seed % 4_000_000_000) + 1;
    let status = Command::new(&bin)
        .arg(format!("-runs={}", plan.runs_per_job))
        .arg(format!("-max_total_time={}", plan.max_total_time))
        .arg(format!("-seed={}", seed))
        .arg("-max_len=512")
        .arg("-len_control=0")
        .arg("-timeout=60")
        .arg("-rss_limit_mb=4096")
        .arg("-print_final_stats=1")
        .arg(format!("-jobs={}", plan.jobs))
        .arg(format!("-workers={}", plan.jobs))
        .arg(format!("-artifact_prefix={}/", artifacts.display()))
        .arg(&corpus)
        .env("VERIF_FUZZ_PROP", &env.prop)
        .env("VERIF_DIR", &env.verif_dir)
        .current_dir(&work)
        .stdout(std::process::Stdio::null())
        .stderr(std::process::Stdio::null())
        .status()
        .map_err(|e| format!("cannot run {}: {}", bin.display(), e))?;
    let _ = status;
    // collect statistics and reported violations from the job logs
    let mut execs: u64 = 0;
    let mut replays: Vec<PathBuf> = vec![];
    let mut timeouts = 0usize;
    if let Ok(rd) = std::fs::read_dir(&work) {
        for e in rd.flatten() {
            let p = e.path();
            if p.file_name().map(|n| n.to_string_lossy().starts_with("fuzz-")).unwrap_or(false) {
                if let Ok(log) = std::fs::read_to_string(&p) {
                    for line in log.lines() {
                        if let Some(v) = line.strip_prefix("stat::number_of_executed_units:") {
                            execs += v.trim().parse::<u64>().unwrap_or(0);
                        }
                        if let Some(pos) = line.find("FUZZ-VIOLATION property=") {
                            if let Some(rp) = line[pos..].split("replay=").nth(1) {
                                let path = rp.split_whitespace().next().unwrap_or("");
                                replays.push(PathBuf::from(path));
                            }
                        }
                        if line.contains("ERROR: libFuzzer: timeout") {
                            timeouts += 1;
                        }
                    }
                }
            }
        }
    }
    let corpus_files = std::fs::read_dir(&corpus).map(|d| d.count()).unwrap_or(0);
    let mut rep = PartReport { name: name.clone(), ..Default::default() };
    rep.evaluations = execs;
    rep.steps = execs;
    rep.bounds = format!("libFuzzer (coverage-guided, no sanitizer: avt has no unsafe code), {} jobs x -runs={} (or {} s), -max_len=512 -len_control=0 -seed={}, {} seed inputs, corpus grew to {} files", plan.jobs, plan.runs_per_job, plan.max_total_time, seed, n_seeds, corpus_files);
    rep.samples.push(format!("target {} with VERIF_FUZZ_PROP={}: {} executions, corpus {} files", plan.target, env.prop, execs, corpus_files));
    rep.classes.insert("executions".into(), execs);
    rep.classes.insert("corpus_files".into(), corpus_files as u64);
    rep.classes.insert("libfuzzer_timeouts".into(), timeouts as u64);
    // corpus entries are distinct inputs that each added coverage: count them as the
    // distinct non-trivial cases of this part
    rep.nontrivial_counted = corpus_files.saturating_sub(n_seeds) as u64;
    // re-judge reported replays and raw crash artifacts with the release-build judge
    let mut candidates: Vec<(String, Case)> = vec![];
    for r in replays {
        if let Ok(rp) = read_replay(&r) {
            if rp.property == env.prop {
                candidates.push((rp.part, rp.case));
            }
        }
    }
    if let Ok(rd) = std::fs::read_dir(&artifacts) {
        for e in rd.flatten() {
            // libFuzzer's own timeout (60 s per input) is a hang candidate for C01 only;
            // for every other property it is "inconclusive", never a violation
            let is_timeout = e.file_name().to_string_lossy().starts_with("timeout-");
            if is_timeout && env.prop != "C01" {
                continue;
            }
            if let Ok(bytes) = std::fs::read(e.path()) {
                for (p, part, case) in fuzzing::decode(plan.target, Some(&env.prop), &bytes) {
                    if p == env.prop {
                        candidates.push((part, case));
                    }
                }
            }
        }
    }
    for (part, case) in candidates {
        let prop = env.prop.clone();
        let part2 = part.clone();
        let jf = move |c: &Case, t: &mut Tally| props::judge(&prop, &part2, c, t).unwrap_or(Verdict::Invalid("unknown property".into()));
        let mut t = Tally::default();
        crate::engine::slot_begin(0, &part, &case);
        let verdict = judge_caught(&jf, &case, &mut t);
        crate::engine::slot_end(0);
        if let Verdict::Fail { sig, msg } = verdict {
            let f = Failure { part: part.clone(), index: 0, case, sig, msg };
            rep.failure = Some(shrink_failure(f, &jf));
            break;
        }
    }
    Ok(rep)
}
