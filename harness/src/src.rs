//! Choice source: every generator draws from a `Src`, which is either a seeded PRNG
//! (random driver) or a byte string (libFuzzer / honggfuzz input).  A run is a pure
//! function of (tree, VERIF_SEED, tier): case `i` of part `p` always gets the PRNG
//! seeded with `mix(seed, p, i)`, independent of thread scheduling.

#[derive(Clone, Debug)]
pub struct Rng(pub u64);

impl Rng {
    pub fn new(seed: u64) -> Self {
        Rng(seed ^ 0x9E37_79B9_7F4A_7C15)
    }
    /// splitmix64
    pub fn next(&mut self) -> u64 {
        self.0 = self.0.wrapping_add(0x9E37_79B9_7F4A_7C15);
        let mut z = self.0;
        z = (z ^ (z >> 30)).wrapping_mul(0xBF58_476D_1CE4_E5B9);
        z = (z ^ (z >> 27)).wrapping_mul(0x94D0_49BB_1331_11EB);
        z ^ (z >> 31)
    }
}

pub fn mix(a: u64, b: u64, c: u64) -> u64 {
    let mut r = Rng::new(a);
    let x = r.next() ^ b.wrapping_mul(0xD6E8_FEB8_6659_FD93);
    let mut r = Rng::new(x);
    let y = r.next() ^ c.wrapping_mul(0xA076_1D64_78BD_642F);
    Rng::new(y).next()
}

pub fn hash_str(s: &str) -> u64 {
    // FNV-1a 64
    let mut h: u64 = 0xcbf29ce484222325;
    for b in s.as_bytes() {
        h ^= *b as u64;
        h = h.wrapping_mul(0x100000001b3);
    }
    h
}

enum Kind<'a> {
    Rng(Rng),
    Bytes(&'a [u8], usize),
}

pub struct Src<'a> {
    kind: Kind<'a>,
}

impl<'a> Src<'a> {
    pub fn rng(seed: u64) -> Src<'static> {
        Src { kind: Kind::Rng(Rng::new(seed)) }
    }
    pub fn bytes(data: &'a [u8]) -> Src<'a> {
        Src { kind: Kind::Bytes(data, 0) }
    }
    /// true when a byte source has been used up (further draws return 0)
    pub fn exhausted(&self) -> bool {
        match &self.kind {
            Kind::Rng(_) => false,
            Kind::Bytes(d, p) => *p >= d.len(),
        }
    }
    /// uniform in 0..n  (n >= 1); a used-up byte source yields 0 = the simplest choice
    pub fn below(&mut self, n: usize) -> usize {
        debug_assert!(n >= 1);
        if n <= 1 {
            return 0;
        }
        match &mut self.kind {
            Kind::Rng(r) => (r.next() % (n as u64)) as usize,
            Kind::Bytes(d, p) => {
                let mut v: usize = 0;
                let mut span: usize = 1;
                while span < n {
                    let b = if *p < d.len() { d[*p] } else { 0 };
                    *p += 1;
                    v = (v << 8) | b as usize;
                    span = span.saturating_mul(256);
                }
                v % n
            }
        }
    }
    pub fn range(&mut self, lo: usize, hi_incl: usize) -> usize {
        lo + self.below(hi_incl - lo + 1)
    }
    pub fn chance(&mut self, num: usize, den: usize) -> bool {
        self.below(den) < num
    }
    pub fn pick<'b, T>(&mut self, v: &'b [T]) -> &'b T {
        &v[self.below(v.len())]
    }
    /// weighted choice: returns the index into `w`
    pub fn weighted(&mut self, w: &[usize]) -> usize {
        let total: usize = w.iter().sum();
        let mut x = self.below(total.max(1));
        for (i, wi) in w.iter().enumerate() {
            if x < *wi {
                return i;
            }
            x -= wi;
        }
        w.len() - 1
    }
}
