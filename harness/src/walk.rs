//! Walks a case function by function: the reference parser segments every fed string
//! into chunks that each end with the character that dispatches a function; the
//! one-step spec (model.rs) predicts the post-state from the *observed* pre-state
//! (resynchronisation after every step), and the visitor judges whatever its property
//! owns.

use crate::case::{new_vt, Call, Case, Verdict};
use crate::model::{step, Effect, Modes, Screen};
use crate::observe::{all_lines, LineSpec};
use crate::reffn::RefFn;
use crate::refparser::{RefParser, St};
use avt::Vt;

pub struct StepRec<'a> {
    pub call_idx: usize,
    pub f: &'a RefFn,
    pub pre: &'a Screen,
    pub exp: &'a Screen,
    pub got: &'a Screen,
    pub eff: &'a Effect,
    pub m_pre: &'a Modes,
    pub m_post: &'a Modes,
    /// this step switched from the alternate back to the primary screen
    pub left_alt: bool,
    pub entered_alt: bool,
    /// the primary buffer was parked while the terminal was resized (its content and the
    /// cursor after re-activation are re-flowed; not predicted by the one-step spec)
    pub stale_primary: bool,
    /// all of lines() before / after (only when the walker was asked to record lines)
    pub lines_pre: Option<&'a [LineSpec]>,
    pub lines_post: Option<&'a [LineSpec]>,
    pub changed: &'a [usize],
}

pub enum Event<'a> {
    Step(StepRec<'a>),
    /// a resize call was applied
    Resized { call_idx: usize, from: (usize, usize), to: (usize, usize), pre: &'a Screen, got: &'a Screen, m_post: &'a Modes, changed: &'a [usize] },
    /// a call finished (after its last chunk)
    CallEnd { call_idx: usize },
}

pub struct Walker {
    pub vt: Vt,
    pub modes: Modes,
    pub parser: RefParser,
    /// exact sequence of calls applied to `vt` so far (feeds are recorded per chunk)
    pub hist: Vec<Call>,
    pub record_lines: bool,
    pub stale_primary: bool,
    entry_size: (usize, usize),
    pub cols: usize,
    pub rows: usize,
    pub init_size: (usize, usize),
    pub limit: Option<usize>,
    /// scrollback lines handed out through Changes so far
    pub handed_out: Vec<LineSpec>,
    pub collect_scrollback: bool,
}

pub enum WalkEnd {
    Done,
    Stopped(Verdict),
}

impl Walker {
    pub fn new(case: &Case) -> Walker {
        Walker {
            vt: new_vt(case.cols, case.rows, case.limit),
            modes: Modes::new(case.cols, case.rows),
            parser: RefParser::new(),
            hist: vec![],
            record_lines: false,
            stale_primary: false,
            entry_size: (case.cols, case.rows),
            cols: case.cols,
            rows: case.rows,
            init_size: (case.cols, case.rows),
            limit: case.limit,
            handed_out: vec![],
            collect_scrollback: false,
        }
    }

    pub fn replica(&self) -> Vt {
        let mut vt = new_vt(self.init_size.0, self.init_size.1, self.limit);
        crate::case::apply_calls(&mut vt, &self.hist);
        vt
    }

    pub fn recipe(&self) -> crate::observe::Recipe {
        crate::observe::Recipe { cols: self.init_size.0, rows: self.init_size.1, limit: self.limit, calls: self.hist.clone() }
    }

    fn feed_chunk(&mut self, chunk: &str, per_char: bool) -> Vec<usize> {
        if per_char {
            for ch in chunk.chars() {
                self.vt.feed(ch);
            }
            self.hist.push(Call::Feed(chunk.to_string()));
            vec![]
        } else {
            let ch = self.vt.feed_str(chunk);
            let lines = ch.lines.clone();
            if self.collect_scrollback {
                for l in ch.scrollback {
                    self.handed_out.push(crate::observe::line_spec(&l));
                }
            } else {
                drop(ch);
            }
            self.hist.push(Call::FeedStr(chunk.to_string()));
            lines
        }
    }

    /// Walk all calls. The visitor may stop the walk with a verdict. If the reference
    /// parser meets a shape outside the specified domain the walk stops with `Invalid`
    /// unless `tolerate_out_of_domain` (then the tracker is no longer exact and the
    /// caller must not rely on it).
    pub fn walk(&mut self, case: &Case, visit: &mut dyn FnMut(&Walker, Event) -> Option<Verdict>) -> WalkEnd {
        for (ci, call) in case.calls.iter().enumerate() {
            match call {
                Call::FeedStr(s) | Call::Feed(s) => {
                    let per_char = matches!(call, Call::Feed(_));
                    let mut chunk = String::new();
                    for ch in s.chars() {
                        chunk.push(ch);
                        let out = self.parser.feed(ch);
                        if !out.in_domain {
                            return WalkEnd::Stopped(Verdict::Invalid(format!("out-of-domain sequence ending at {:?}", chunk)));
                        }
                        if let Some(f) = out.func {
                            let pre = Screen::observe(&self.vt);
                            let lines_pre = if self.record_lines { Some(all_lines(&self.vt)) } else { None };
                            // the one-step spec indexes the observed screen at the observed
                            // cursor: an observable state that is itself inconsistent cannot
                            // satisfy any per-step property (and must not crash the spec)
                            if pre.row >= pre.rows || pre.col > pre.cols || pre.cells.len() != pre.rows || pre.cells.iter().any(|r| r.len() != pre.cols) || (pre.cols, pre.rows) != (self.cols, self.rows) {
                                return WalkEnd::Stopped(Verdict::fail(
                                    "corrupt-state",
                                    format!("before {:?}: the observable state is inconsistent (size() = {}x{}, last requested {}x{}, cursor ({},{}), view of {} rows)", f, pre.cols, pre.rows, self.cols, self.rows, pre.col, pre.row, pre.cells.len()),
                                ));
                            }
                            let mut exp = pre.clone();
                            let m_pre = self.modes.clone();
                            let was_alt = self.modes.alt;
                            let eff = step(&mut exp, &mut self.modes, &f);
                            let entered_alt = !was_alt && self.modes.alt;
                            let left_alt = was_alt && !self.modes.alt;
                            if entered_alt {
                                self.entry_size = (self.cols, self.rows);
                                self.stale_primary = false;
                            }
                            let changed = self.feed_chunk(&chunk, per_char);
                            chunk.clear();
                            let got = Screen::observe(&self.vt);
                            let lines_post = if self.record_lines { Some(all_lines(&self.vt)) } else { None };
                            let stale = self.stale_primary;
                            let m_post = self.modes.clone();
                            let rec = StepRec {
                                call_idx: ci,
                                f: &f,
                                pre: &pre,
                                exp: &exp,
                                got: &got,
                                eff: &eff,
                                m_pre: &m_pre,
                                m_post: &m_post,
                                left_alt,
                                entered_alt,
                                stale_primary: stale,
                                lines_pre: lines_pre.as_deref(),
                                lines_post: lines_post.as_deref(),
                                changed: &changed,
                            };
                            if left_alt {
                                self.stale_primary = false;
                            }
                            if let Some(v) = visit(self, Event::Step(rec)) {
                                return WalkEnd::Stopped(v);
                            }
                        }
                    }
                    if !chunk.is_empty() {
                        self.feed_chunk(&chunk, per_char);
                    }
                }
                Call::Resize(c, r) => {
                    let pre = Screen::observe(&self.vt);
                    let from = (self.cols, self.rows);
                    let changed = {
                        let ch = self.vt.resize(*c, *r);
                        let changed = ch.lines.clone();
                        if self.collect_scrollback {
                            for l in ch.scrollback {
                                self.handed_out.push(crate::observe::line_spec(&l));
                            }
                        }
                        changed
                    };
                    self.hist.push(Call::Resize(*c, *r));
                    self.modes.resize(*c, *r);
                    self.cols = *c;
                    self.rows = *r;
                    if self.modes.alt && (*c, *r) != self.entry_size {
                        self.stale_primary = true;
                    }
                    let got = Screen::observe(&self.vt);
                    let m_post = self.modes.clone();
                    if let Some(v) = visit(self, Event::Resized { call_idx: ci, from, to: (*c, *r), pre: &pre, got: &got, m_post: &m_post, changed: &changed }) {
                        return WalkEnd::Stopped(v);
                    }
                }
                Call::Dump => {
                    let _ = self.vt.dump();
                }
                Call::Text => {
                    let _ = self.vt.text();
                }
                Call::Query => {
                    let _ = self.vt.cursor();
                    let _ = self.vt.lines().len();
                }
            }
            if let Some(v) = visit(self, Event::CallEnd { call_idx: ci }) {
                return WalkEnd::Stopped(v);
            }
        }
        WalkEnd::Done
    }

    pub fn parser_in_ground(&self) -> bool {
        self.parser.state == St::Ground
    }
}

/// Track-only pass over a string: which functions does the stream contain?
pub fn functions_of(s: &str) -> (Vec<RefFn>, bool, St) {
    let mut p = RefParser::new();
    let mut out = vec![];
    let mut in_domain = true;
    for ch in s.chars() {
        let o = p.feed(ch);
        in_domain &= o.in_domain;
        if let Some(f) = o.func {
            out.push(f);
        }
    }
    (out, in_domain, p.state)
}

/// Which screen is showing, tracked over *arbitrary* input with the reference parser.
/// Sequences outside the specified domain that could be a mode switch make the answer
/// `None` (unknown) until the next in-domain switch or RIS.
#[derive(Clone, Debug)]
pub struct ScreenTracker {
    pub parser: RefParser,
    pub alt: Option<bool>,
    pub saw_ris: bool,
    pub saw_switch: bool,
}

impl Default for ScreenTracker {
    fn default() -> Self {
        Self::new()
    }
}

impl ScreenTracker {
    pub fn new() -> Self {
        ScreenTracker { parser: RefParser::new(), alt: Some(false), saw_ris: false, saw_switch: false }
    }
    pub fn feed(&mut self, ch: char) {
        let was = self.parser.state;
        let o = self.parser.feed(ch);
        if !o.in_domain {
            // an out-of-domain CSI ending in h/l might have switched screens
            if matches!(was, St::CsiParam | St::CsiEntry | St::CsiInt) && (ch == 'h' || ch == 'l') {
                self.alt = None;
            }
            return;
        }
        match o.func {
            Some(RefFn::Ris) => {
                self.alt = Some(false);
                self.saw_ris = true;
            }
            Some(RefFn::Decset(ms)) => {
                if ms.iter().any(|m| *m == 1047 || *m == 1049) {
                    self.alt = Some(true);
                    self.saw_switch = true;
                }
            }
            Some(RefFn::Decrst(ms)) => {
                if ms.iter().any(|m| *m == 1047 || *m == 1049) {
                    self.alt = Some(false);
                    self.saw_switch = true;
                }
            }
            _ => {}
        }
    }
    pub fn feed_str(&mut self, s: &str) {
        for ch in s.chars() {
            self.feed(ch);
        }
    }
}
