//! Concrete cases: a configuration plus a list of public API calls.  Replay files are
//! the JSON form of a `Case` (+ what was judged), so they do not depend on generator
//! code.  Shrinking works on the concrete case; every judge re-validates its own
//! preconditions and answers `Invalid` for candidates that left the property's domain.

use avt::Vt;
use serde::{Deserialize, Serialize};

#[derive(Serialize, Deserialize, Clone, Debug, PartialEq, Eq, Hash)]
pub enum Call {
    /// one `feed_str` call
    FeedStr(String),
    /// `feed()` once per character
    Feed(String),
    Resize(usize, usize),
    /// read-only calls (exercised by C01/C02): dump(), text(), lines/view/line/cursor
    Dump,
    Text,
    Query,
}

#[derive(Serialize, Deserialize, Clone, Debug, PartialEq, Eq, Hash)]
pub struct Case {
    pub cols: usize,
    pub rows: usize,
    /// None = unlimited scrollback
    pub limit: Option<usize>,
    pub calls: Vec<Call>,
    /// property-specific strings (continuations, inert items, …)
    #[serde(default)]
    pub tail: Vec<String>,
    /// property-specific numbers (second width, drain pattern, …)
    #[serde(default)]
    pub nums: Vec<usize>,
}

impl Case {
    pub fn new(cols: usize, rows: usize, limit: Option<usize>) -> Self {
        Case { cols, rows, limit, calls: vec![], tail: vec![], nums: vec![] }
    }
    pub fn feed(mut self, s: impl Into<String>) -> Self {
        self.calls.push(Call::FeedStr(s.into()));
        self
    }
    pub fn resize(mut self, c: usize, r: usize) -> Self {
        self.calls.push(Call::Resize(c, r));
        self
    }
    pub fn with_tail(mut self, t: Vec<String>) -> Self {
        self.tail = t;
        self
    }
    pub fn with_nums(mut self, n: Vec<usize>) -> Self {
        self.nums = n;
        self
    }
    pub fn fresh(&self) -> Vt {
        new_vt(self.cols, self.rows, self.limit)
    }
    /// terminal after all calls (read-only calls skipped)
    pub fn build(&self) -> Vt {
        let mut vt = self.fresh();
        apply_calls(&mut vt, &self.calls);
        vt
    }
    pub fn key(&self) -> u64 {
        use std::hash::{Hash, Hasher};
        let mut h = std::collections::hash_map::DefaultHasher::new();
        self.hash(&mut h);
        h.finish()
    }
    /// compact human-readable rendering for evidence samples
    pub fn render(&self) -> String {
        let mut s = format!("{}x{}", self.cols, self.rows);
        match self.limit {
            None => s.push_str(" sb=unlimited"),
            Some(l) => s.push_str(&format!(" sb={}", l)),
        }
        for c in &self.calls {
            s.push(' ');
            match c {
                Call::FeedStr(t) => s.push_str(&format!("feed_str({:?})", clip(t, 160))),
                Call::Feed(t) => s.push_str(&format!("feed*({:?})", clip(t, 160))),
                Call::Resize(c, r) => s.push_str(&format!("resize({},{})", c, r)),
                Call::Dump => s.push_str("dump()"),
                Call::Text => s.push_str("text()"),
                Call::Query => s.push_str("query()"),
            }
        }
        if !self.tail.is_empty() {
            s.push_str(&format!(" tail={:?}", self.tail.iter().map(|t| clip(t, 80)).collect::<Vec<_>>()));
        }
        if !self.nums.is_empty() {
            s.push_str(&format!(" nums={:?}", self.nums));
        }
        s
    }
    pub fn total_len(&self) -> usize {
        self.calls
            .iter()
            .map(|c| match c {
                Call::FeedStr(s) | Call::Feed(s) => s.chars().count() + 1,
                _ => 1,
            })
            .sum::<usize>()
            + self.tail.iter().map(|t| t.chars().count() + 1).sum::<usize>()
    }
}

pub fn clip(s: &str, n: usize) -> String {
    if s.chars().count() <= n {
        s.to_string()
    } else {
        let mut t: String = s.chars().take(n).collect();
        t.push('…');
        t
    }
}

pub fn new_vt(cols: usize, rows: usize, limit: Option<usize>) -> Vt {
    let mut b = Vt::builder();
    b.size(cols, rows);
    if let Some(l) = limit {
        b.scrollback_limit(l);
    }
    b.build()
}

pub fn apply_call(vt: &mut Vt, c: &Call) {
    match c {
        Call::FeedStr(s) => {
            let _ = vt.feed_str(s);
        }
        Call::Feed(s) => {
            for ch in s.chars() {
                vt.feed(ch);
            }
        }
        Call::Resize(c, r) => {
            let _ = vt.resize(*c, *r);
        }
        Call::Dump | Call::Text | Call::Query => {}
    }
}

pub fn apply_calls(vt: &mut Vt, calls: &[Call]) {
    for c in calls {
        apply_call(vt, c);
    }
}

/// Verdict of a judge on one case.
#[derive(Clone, Debug, PartialEq)]
pub enum Verdict {
    Pass,
    /// `sig` is a short, stable category of the failure (used to keep shrinking on the
    /// same failure); `msg` is the human explanation.
    Fail { sig: String, msg: String },
    /// the case is outside the property's domain (only arises for shrink candidates and
    /// hand-written replays; generators construct valid cases)
    Invalid(String),
}

impl Verdict {
    pub fn fail(sig: impl Into<String>, msg: impl Into<String>) -> Verdict {
        Verdict::Fail { sig: sig.into(), msg: msg.into() }
    }
    pub fn is_fail(&self) -> bool {
        matches!(self, Verdict::Fail { .. })
    }
}

fn remove_char_range(s: &str, from: usize, n: usize) -> String {
    s.chars().enumerate().filter(|(i, _)| *i < from || *i >= from + n).map(|(_, c)| c).collect()
}

/// Generic shrinker: greedy delta debugging over calls, characters, tail items and
/// numbers.  `still_fails` must return true iff the candidate fails with the same
/// signature.  Bounded by `budget` judge invocations.
pub fn shrink(case: &Case, budget: usize, still_fails: &mut dyn FnMut(&Case) -> bool) -> Case {
    let mut best = case.clone();
    let mut used = 0usize;
    let mut try_cand = |cand: Case, best: &mut Case, used: &mut usize| -> bool {
        if *used >= budget || cand == *best {
            return false;
        }
        *used += 1;
        if still_fails(&cand) {
            *best = cand;
            true
        } else {
            false
        }
    };
    loop {
        let before = best.clone();
        // 1. drop tail items from the end
        while !best.tail.is_empty() {
            let mut c = best.clone();
            c.tail.pop();
            if !try_cand(c, &mut best, &mut used) {
                break;
            }
        }
        // 2. drop calls (chunks, then singles)
        let mut chunk = (best.calls.len() / 2).max(1);
        loop {
            let mut i = 0;
            while i < best.calls.len() {
                let mut c = best.clone();
                let end = (i + chunk).min(c.calls.len());
                c.calls.drain(i..end);
                if !try_cand(c, &mut best, &mut used) {
                    i += chunk;
                }
            }
            if chunk == 1 {
                break;
            }
            chunk /= 2;
        }
        // 3. drop characters inside strings (calls and tail)
        let n_str = best.calls.len() + best.tail.len();
        for si in 0..n_str {
            let get = |c: &Case| -> Option<String> {
                if si < c.calls.len() {
                    match &c.calls[si] {
                        Call::FeedStr(s) | Call::Feed(s) => Some(s.clone()),
                        _ => None,
                    }
                } else {
                    c.tail.get(si - c.calls.len()).cloned()
                }
            };
            let set = |c: &mut Case, v: String| {
                if si < c.calls.len() {
                    match &mut c.calls[si] {
                        Call::FeedStr(s) | Call::Feed(s) => *s = v,
                        _ => {}
                    }
                } else {
                    let k = si - c.calls.len();
                    c.tail[k] = v;
                }
            };
            if si >= best.calls.len() + best.tail.len() {
                break;
            }
            let Some(s0) = get(&best) else { continue };
            let mut chunk = (s0.chars().count() / 2).max(1);
            loop {
                let mut i = 0;
                loop {
                    let Some(cur) = get(&best) else { break };
                    let len = cur.chars().count();
                    if i >= len {
                        break;
                    }
                    let mut c = best.clone();
                    set(&mut c, remove_char_range(&cur, i, chunk));
                    if !try_cand(c, &mut best, &mut used) {
                        i += chunk;
                    }
                }
                if chunk == 1 {
                    break;
                }
                chunk /= 2;
            }
            // simplify characters: non-ASCII -> 'a'
            if let Some(cur) = get(&best) {
                if !cur.is_ascii() {
                    let simp: String = cur.chars().map(|ch| if (ch as u32) >= 0xa0 { 'a' } else { ch }).collect();
                    let mut c = best.clone();
                    set(&mut c, simp);
                    try_cand(c, &mut best, &mut used);
                }
            }
        }
        // 4. Feed (per char) -> FeedStr, merge nothing else
        for i in 0..best.calls.len() {
            if let Call::Feed(s) = &best.calls[i] {
                let mut c = best.clone();
                c.calls[i] = Call::FeedStr(s.clone());
                try_cand(c, &mut best, &mut used);
            }
        }
        // 5. numbers: size, limit, resizes, nums
        for target in [1usize, 2, 3, 4, 5, 8] {
            if best.cols > target {
                let mut c = best.clone();
                c.cols = target;
                try_cand(c, &mut best, &mut used);
            }
            if best.rows > target {
                let mut c = best.clone();
                c.rows = target;
                try_cand(c, &mut best, &mut used);
            }
        }
        if best.cols > 1 {
            let mut c = best.clone();
            c.cols -= 1;
            try_cand(c, &mut best, &mut used);
        }
        if best.rows > 1 {
            let mut c = best.clone();
            c.rows -= 1;
            try_cand(c, &mut best, &mut used);
        }
        if best.limit.is_some() {
            let mut c = best.clone();
            c.limit = None;
            try_cand(c, &mut best, &mut used);
        }
        if let Some(l) = best.limit {
            for t in [0usize, 1, l / 2] {
                if t < l {
                    let mut c = best.clone();
                    c.limit = Some(t);
                    if try_cand(c, &mut best, &mut used) {
                        break;
                    }
                }
            }
        }
        for i in 0..best.calls.len() {
            if let Call::Resize(cc, rr) = best.calls[i] {
                for (nc, nr) in [(1, 1), (cc, 1), (1, rr), (cc / 2 + 1, rr), (cc, rr / 2 + 1), (cc.saturating_sub(1).max(1), rr), (cc, rr.saturating_sub(1).max(1))] {
                    if (nc, nr) != (cc, rr) && nc <= cc && nr <= rr {
                        let mut c = best.clone();
                        c.calls[i] = Call::Resize(nc, nr);
                        if try_cand(c, &mut best, &mut used) {
                            break;
                        }
                    }
                }
            }
        }
        for i in 0..best.nums.len() {
            for t in [0usize, 1, best.nums[i] / 2, best.nums[i].saturating_sub(1)] {
                if t < best.nums[i] {
                    let mut c = best.clone();
                    c.nums[i] = t;
                    if try_cand(c, &mut best, &mut used) {
                        break;
                    }
                }
            }
        }
        if best == before || used >= budget {
            break;
        }
    }
    best
}
