//! avt-verif: property-based testing / fuzzing harness for asciinema/avt.
//! See /verif/DESIGN.md.
pub mod case;
pub mod engine;
pub mod fuzzing;
pub mod fuzzstage;
pub mod gen;
pub mod model;
pub mod observe;
pub mod props;
pub mod reffn;
pub mod refparser;
pub mod spec;
pub mod src;
pub mod walk;
