//! Observers over the public API only, and the probe battery that decides
//! observational equivalence of two terminals of the same build (DESIGN §3.5/3.6).

use crate::case::{apply_calls, new_vt, Call};
use crate::model::{row_of, wrapped, CellSpec, Screen};
use avt::Vt;

/// Everything directly visible: screen, cursor visibility, cursor-key mode.
#[derive(Debug, Clone, PartialEq)]
pub struct Visible {
    pub screen: Screen,
    pub cursor_visible: bool,
    pub app_keys: bool,
}

pub fn visible(vt: &Vt) -> Visible {
    Visible { screen: Screen::observe(vt), cursor_visible: vt.cursor().visible, app_keys: vt.cursor_key_app_mode() }
}

pub type LineSpec = (Vec<CellSpec>, bool);

pub fn line_spec(l: &avt::Line) -> LineSpec {
    (row_of(l), wrapped(l))
}

pub fn all_lines(vt: &Vt) -> Vec<LineSpec> {
    vt.lines().iter().map(line_spec).collect()
}

pub fn fmt_line(l: &LineSpec) -> String {
    let t: String = l.0.iter().map(|c| c.0).collect();
    format!("{:?}{}", t, if l.1 { "⏎" } else { "" })
}

/// Logical (unwrapped) lines of `lines()` with untrimmed text, and the cursor's place
/// in them as (logical line index, character offset).
pub fn logical(vt: &Vt) -> (Vec<String>, (usize, usize)) {
    let lines = vt.lines();
    let (_cols, rows) = vt.size();
    let c = vt.cursor();
    let abs = lines.len() - rows + c.row;
    let mut out = vec![];
    let mut cur = String::new();
    let mut curpos = (0, 0);
    for (i, l) in lines.iter().enumerate() {
        if i == abs {
            curpos = (out.len(), cur.chars().count() + c.col);
        }
        cur.push_str(&l.text());
        if !wrapped(l) {
            out.push(std::mem::take(&mut cur));
        }
    }
    if !cur.is_empty() {
        out.push(cur);
    }
    (out, curpos)
}

/// logical lines as cells (characters with their pens)
pub fn logical_cells(vt: &Vt) -> Vec<Vec<CellSpec>> {
    let mut out = vec![];
    let mut cur: Vec<CellSpec> = vec![];
    for l in vt.lines() {
        cur.extend(row_of(l));
        if !wrapped(l) {
            out.push(std::mem::take(&mut cur));
        }
    }
    if !cur.is_empty() {
        out.push(cur);
    }
    out
}

fn trim_cells(v: &[CellSpec]) -> &[CellSpec] {
    let mut n = v.len();
    while n > 0 && v[n - 1].0 == ' ' {
        n -= 1;
    }
    &v[..n]
}

/// Pens travel with the text: after a re-wrap, every logical line before `from_line` must
/// carry the same (character, pen) cells up to trailing spaces, and every line from
/// `from_line` on must be a cell-for-cell prefix of what it was (lines may be cut short,
/// never repainted). Returns a description of the first difference.
pub fn pens_relation(before: &[Vec<CellSpec>], after: &[Vec<CellSpec>], from_line: usize) -> Option<String> {
    for (i, a) in after.iter().enumerate() {
        let a = trim_cells(a);
        let Some(b) = before.get(i) else { break };
        let b = trim_cells(b);
        let n = if i < from_line { a.len().max(b.len()) } else { a.len() };
        for k in 0..n {
            if a.get(k) != b.get(k) {
                // a pure text difference is the text relation's business; report pens only
                if let (Some(x), Some(y)) = (a.get(k), b.get(k)) {
                    if x.0 == y.0 && x.1 != y.1 {
                        return Some(format!("logical line {}, character {} ({:?}): pen was {:?}, is {:?}", i, k, x.0, y.1, x.1));
                    }
                }
                break;
            }
        }
    }
    None
}

pub fn trim_sp(s: &str) -> &str {
    s.trim_end_matches(' ')
}

/// C02 invariants that need no history knowledge. Returns a description of the first
/// violated one.
pub fn geometry_violation(vt: &Vt, expect_size: (usize, usize)) -> Option<String> {
    let (cols, rows) = vt.size();
    if (cols, rows) != expect_size {
        return Some(format!("size() = {:?}, last requested {:?}", (cols, rows), expect_size));
    }
    let view = vt.view();
    let lines = vt.lines();
    if view.len() != rows {
        return Some(format!("view().len() = {} but rows = {}", view.len(), rows));
    }
    if lines.len() < rows {
        return Some(format!("lines().len() = {} < rows = {}", lines.len(), rows));
    }
    if view != &lines[lines.len() - rows..] {
        return Some("view() is not the tail of lines()".into());
    }
    for (i, l) in lines.iter().enumerate() {
        if l.len() != cols {
            return Some(format!("lines()[{}].len() = {} but cols = {}", i, l.len(), cols));
        }
        if l.cells().len() != cols {
            return Some(format!("lines()[{}].cells().len() = {} but cols = {}", i, l.cells().len(), cols));
        }
    }
    for r in 0..rows {
        if vt.line(r) != &view[r] {
            return Some(format!("line({}) differs from view()[{}]", r, r));
        }
    }
    if wrapped(lines.last().unwrap()) {
        return Some("last line is marked soft-wrapped".into());
    }
    let c = vt.cursor();
    if c.row >= rows {
        return Some(format!("cursor.row = {} >= rows = {}", c.row, rows));
    }
    if c.col > cols {
        return Some(format!("cursor.col = {} > cols = {}", c.col, cols));
    }
    None
}

pub fn changes_violation(lines: &[usize], rows: usize) -> Option<String> {
    for w in lines.windows(2) {
        if w[0] >= w[1] {
            return Some(format!("changed-line indices not strictly increasing: {:?}", lines));
        }
    }
    if let Some(l) = lines.last() {
        if *l >= rows {
            return Some(format!("changed-line index {} >= rows {}", l, rows));
        }
    }
    None
}

/// A recipe builds a terminal in some state; since `Vt` is not `Clone`, replicas are
/// obtained by replaying the recipe.
#[derive(Clone, Debug)]
pub struct Recipe {
    pub cols: usize,
    pub rows: usize,
    pub limit: Option<usize>,
    pub calls: Vec<Call>,
}

impl Recipe {
    pub fn build(&self) -> Vt {
        let mut vt = new_vt(self.cols, self.rows, self.limit);
        apply_calls(&mut vt, &self.calls);
        vt
    }
}

/// Probe chains. Each chain runs on a fresh pair of replicas; after every element the
/// two terminals must look the same. Chains are ordered so that the hidden component a
/// probe is after has not been destroyed by an earlier element of the same chain.
pub fn probe_chains(cols: usize, rows: usize) -> Vec<Vec<String>> {
    let s = |v: &[&str]| v.iter().map(|x| x.to_string()).collect::<Vec<String>>();
    let mut chains = vec![
        // parser completion suffixes: whatever state the parser was left in, these finish it
        s(&["5;6H", "X"]),
        s(&["m", "Y"]),
        s(&["\x07", "Z"]),
        s(&["\u{9c}", "W"]),
        s(&["\x1b\\", "V"]),
        s(&["\x18", "q"]),
        s(&["0", "h", "k"]),
        // pen / charset / insert / auto-wrap through prints at the current position
        s(&["\x18", "Xq~", "\x0eq\x0fq", "abc\ndef", "\x1b[4lzz"]),
        // insert mode needs content to the right of the cursor to become visible
        s(&["\x18", "\rabcd\r", "XY", "\x1b[4l", "Z"]),
        // pending-wrap and auto-wrap at the right edge
        s(&["\x18", "Q", "Q", "\x1b[999C", "RS", "T"]),
        // tab stops (forward then backward)
        {
            let mut v = vec!["\x18".to_string(), "\r".to_string()];
            for _ in 0..(cols / 2 + 2).min(24) {
                v.push("\t".into());
            }
            for _ in 0..(cols / 2 + 2).min(24) {
                v.push("\x1b[Z".into());
            }
            v
        },
        // margins and origin mode through cursor-only probes
        s(&["\x18", "\x1b[1;1H", "\x1b[9999;1H", "\x1b[9999A", "\x1b[9999B", "\x1b[1;1H\x1b[9999B", "\x1b[9999;1H\x1b[9999A", "\x1b[3d", "\x1b[?6l", "\x1b[9999;1H", "\x1b[9999A", "\x1b[1;1H\x1b[9999B"]),
        // scrolling region behaviour with content
        s(&["\x18", "\x1b[9999;1H\n", "L\n", "\x1b[1;1H\x1bM", "\x1bM", "\x1b[2S", "\x1b[T"]),
        // LF / new-line mode
        s(&["\x18", "\x1b[1;3H\n", "x\ny"]),
        // saved context of the active screen
        s(&["\x18", "\x1b8", "X", "\x1b[9999C", "YZ", "\x1b[1;1H", "\x1b[9999;1H"]),
        // saved context of the other screen + what is parked there
        s(&["\x18", "\x1b[?1047h", "\x1b8", "X", "\x1b[9999C", "YZ", "\x1b[1;1H", "\x1b[?1047l", "\x1b8", "X", "\x1b[9999C", "YZ"]),
        s(&["\x18", "\x1b[?1047l", "\x1b8", "X", "\x1b[9999C", "YZ", "\x1b[1;1H", "\x1b[9999;1H"]),
        // which screen is active; 1049 round trips
        s(&["\x18", "\x1b[?1049l", "A", "\x1b[?1049h", "B", "\x1b[?1049l", "C"]),
        s(&["\x18", "\x1b[?1049h", "A", "\x1b[?1049l", "B"]),
        // cursor visibility and key mode toggles
        s(&["\x18", "\x1b[?25h", "\x1b[?25l", "\x1b[?1l", "\x1b[?1h"]),
        // soft reset, then prints
        s(&["\x18", "\x1b[!p", "Xq", "\x1b8", "Y"]),
        // DECALN + erase with current pen
        s(&["\x18", "\x1b[2K", "\x1b[1J", "\x1b#8", "\x1b[J"]),
        // insert/delete with current pen
        s(&["\x18", "\x1b[2@", "\x1b[P", "\x1b[2X", "\x1b[L", "\x1b[M"]),
    ];
    if rows >= 2 {
        chains.push(s(&["\x18", "\x1b[1;2r", "\x1b[9999;1H", "\n\n"]));
    }
    chains
}

#[derive(Debug, Clone)]
pub struct Diff {
    pub after: Vec<String>,
    pub what: String,
}

fn describe_diff(a: &Vt, b: &Vt) -> Option<String> {
    let (va, vb) = (visible(a), visible(b));
    if va == vb {
        return None;
    }
    if (va.screen.cols, va.screen.rows) != (vb.screen.cols, vb.screen.rows) {
        return Some(format!("size {:?} vs {:?}", (va.screen.cols, va.screen.rows), (vb.screen.cols, vb.screen.rows)));
    }
    if (va.screen.col, va.screen.row) != (vb.screen.col, vb.screen.row) {
        return Some(format!("cursor ({},{}) vs ({},{})", va.screen.col, va.screen.row, vb.screen.col, vb.screen.row));
    }
    if va.cursor_visible != vb.cursor_visible {
        return Some(format!("cursor visibility {} vs {}", va.cursor_visible, vb.cursor_visible));
    }
    if va.app_keys != vb.app_keys {
        return Some(format!("cursor-key mode {} vs {}", va.app_keys, vb.app_keys));
    }
    for r in 0..va.screen.rows {
        if va.screen.cells[r] != vb.screen.cells[r] {
            for c in 0..va.screen.cols {
                if va.screen.cells[r][c] != vb.screen.cells[r][c] {
                    return Some(format!("cell (col {}, row {}): {:?} vs {:?}", c, r, va.screen.cells[r][c], vb.screen.cells[r][c]));
                }
            }
        }
        if va.screen.wraps[r] != vb.screen.wraps[r] {
            return Some(format!("soft-wrap mark of row {}: {} vs {}", r, va.screen.wraps[r], vb.screen.wraps[r]));
        }
    }
    Some("visible state differs".into())
}

/// Level 1: directly visible state. Level 3: chained probes. Returns the first
/// behavioural difference.
pub fn equivalent(a: &Recipe, b: &Recipe, with_chains: bool) -> Result<(), Diff> {
    let (va, vb) = (a.build(), b.build());
    if let Some(d) = describe_diff(&va, &vb) {
        return Err(Diff { after: vec![], what: d });
    }
    if !with_chains {
        return Ok(());
    }
    let (cols, rows) = va.size();
    for chain in probe_chains(cols, rows) {
        let (mut x, mut y) = (a.build(), b.build());
        let mut fed = vec![];
        for p in &chain {
            let _ = x.feed_str(p);
            let _ = y.feed_str(p);
            fed.push(p.clone());
            if let Some(d) = describe_diff(&x, &y) {
                return Err(Diff { after: fed, what: d });
            }
        }
    }
    Ok(())
}

/// Same continuation on both; compare visible state after each piece.
pub fn equivalent_after(a: &Recipe, b: &Recipe, continuation: &[String]) -> Result<(), Diff> {
    let (mut x, mut y) = (a.build(), b.build());
    let mut fed = vec![];
    for p in continuation {
        let _ = x.feed_str(p);
        let _ = y.feed_str(p);
        fed.push(p.clone());
        if let Some(d) = describe_diff(&x, &y) {
            return Err(Diff { after: fed, what: d });
        }
    }
    Ok(())
}

pub fn dumps_equal(a: &Recipe, b: &Recipe) -> bool {
    a.build().dump() == b.build().dump()
}
