//! Runner: parallel deterministic case generation, judging, shrinking, replay files,
//! known findings, evidence.

use crate::case::{shrink, Case, Verdict};
use crate::src::{hash_str, mix, Src};
use serde::{Deserialize, Serialize};
use serde_json::json;
use std::collections::{BTreeMap, HashSet};
use std::path::{Path, PathBuf};
use std::sync::atomic::{AtomicBool, AtomicU64, AtomicUsize, Ordering};
use std::sync::{Mutex, OnceLock};
use std::time::Instant;

#[derive(Clone, Copy, Debug, PartialEq, Eq)]
pub enum Tier {
    Quick,
    Thorough,
}

impl Tier {
    pub fn name(self) -> &'static str {
        match self {
            Tier::Quick => "quick",
            Tier::Thorough => "thorough",
        }
    }
    /// scale a quick-tier count for the thorough tier
    pub fn scale(self, quick: usize, factor: usize) -> usize {
        match self {
            Tier::Quick => quick,
            Tier::Thorough => quick * factor,
        }
    }
}

pub struct Env {
    pub prop: String,
    pub tier: Tier,
    pub seed: u64,
    pub threads: usize,
    pub verif_dir: PathBuf,
}

/// What a judge reports about one case besides the verdict.
#[derive(Default, Debug, Clone)]
pub struct Tally {
    /// number of individual judged steps / comparisons inside this case
    pub steps: u64,
    /// the case is non-trivial by the property's stated rule
    pub nontrivial: bool,
    /// classes this case hit (generator self-measurement)
    pub classes: Vec<&'static str>,
    /// failures that matched an open known finding (by id)
    pub known_hits: Vec<String>,
    /// sub-cases excluded by construction because of an open known finding
    pub excluded: u64,
}

impl Tally {
    pub fn class(&mut self, c: &'static str) {
        if !self.classes.contains(&c) {
            self.classes.push(c);
        }
    }
}

pub type Judge<'a> = dyn Fn(&Case, &mut Tally) -> Verdict + Sync + 'a;

#[derive(Debug, Clone)]
pub struct Failure {
    pub part: String,
    pub index: usize,
    pub case: Case,
    pub sig: String,
    pub msg: String,
}

#[derive(Debug, Default)]
pub struct PartReport {
    pub name: String,
    pub evaluations: u64,
    pub steps: u64,
    pub nontrivial: HashSet<u64>,
    /// non-trivial cases counted directly (enumerations whose cases are distinct by construction)
    pub nontrivial_counted: u64,
    pub classes: BTreeMap<String, u64>,
    pub samples: Vec<String>,
    pub exhaustive: bool,
    pub bounds: String,
    pub failure: Option<Failure>,
    pub known_hits: BTreeMap<String, u64>,
    pub excluded: u64,
    pub invalid: u64,
}

// ---------------------------------------------------------------- global run config

pub struct Globals {
    /// open known findings (ids) — tolerated unless strict
    pub open: Vec<String>,
    pub strict: AtomicBool,
}

static GLOBALS: OnceLock<Globals> = OnceLock::new();

pub fn init_globals(open: Vec<String>) {
    let _ = GLOBALS.set(Globals { open, strict: AtomicBool::new(false) });
}

pub fn set_strict(on: bool) {
    if let Some(g) = GLOBALS.get() {
        g.strict.store(on, Ordering::SeqCst);
    }
}

/// Is `id` listed as an open known finding (and tolerance not disabled)?
pub fn tolerated(id: &str) -> bool {
    match GLOBALS.get() {
        None => false,
        Some(g) => !g.strict.load(Ordering::SeqCst) && g.open.iter().any(|x| x == id),
    }
}

// ---------------------------------------------------------------- panic capture

thread_local! {
    static LAST_PANIC: std::cell::RefCell<Option<(String, bool)>> = const { std::cell::RefCell::new(None) };
    static QUIET: std::cell::Cell<bool> = const { std::cell::Cell::new(false) };
}

/// Install a hook that records (message, raised-inside-avt?) per thread and stays
/// silent while a judged call is running.
pub fn install_panic_hook() {
    let default = std::panic::take_hook();
    std::panic::set_hook(Box::new(move |info| {
        let quiet = QUIET.with(|q| q.get());
        if !quiet {
            default(info);
            return;
        }
        let msg = if let Some(s) = info.payload().downcast_ref::<&str>() {
            s.to_string()
        } else if let Some(s) = info.payload().downcast_ref::<String>() {
            s.clone()
        } else {
            "panic".to_string()
        };
        let loc = info.location().map(|l| format!("{}:{}", l.file(), l.line())).unwrap_or_default();
        let bt = std::backtrace::Backtrace::force_capture().to_string();
        if std::env::var("VERIF_DEBUG_BT").is_ok() { eprintln!("{}", bt); }
        let in_avt = panic_in_avt(&bt, &loc);
        LAST_PANIC.with(|p| *p.borrow_mut() = Some((format!("{} at {}", msg, loc), in_avt)));
    }));
}

fn panic_in_avt(bt: &str, loc: &str) -> bool {
    if loc.starts_with("/repo/") || loc.starts_with("src/") && !loc.contains("harness") {
        // location inside avt sources (path dependency compiles with absolute path)
        if loc.starts_with("/repo/") {
            return true;
        }
    }
    // innermost non-std frame *below the panic machinery* decides
    let mut started = false;
    for line in bt.lines() {
        let l = line.trim();
        // frame lines look like "12: avt::buffer::Buffer::insert"
        let Some(pos) = l.find(": ") else { continue };
        if !l[..pos].chars().all(|c| c.is_ascii_digit()) {
            continue;
        }
        let sym = l[pos + 2..].trim_start_matches('<');
        if !started {
            if sym.contains("rust_begin_unwind") || sym.starts_with("core::panicking::") {
                started = true;
            }
            continue;
        }
        if sym.starts_with("avt::") {
            return true;
        }
        if sym.starts_with("avt_verif::") || sym.starts_with("vcheck::") {
            return false;
        }
    }
    false
}

pub enum Caught<T> {
    Ok(T),
    /// panic raised inside avt: message
    AvtPanic(String),
    /// panic raised inside the harness itself: message
    HarnessPanic(String),
}

pub fn catch<T>(f: impl FnOnce() -> T) -> Caught<T> {
    let prev = QUIET.with(|q| q.replace(true));
    let r = std::panic::catch_unwind(std::panic::AssertUnwindSafe(f));
    QUIET.with(|q| q.set(prev));
    match r {
        Ok(v) => Caught::Ok(v),
        Err(_) => {
            let (msg, in_avt) = LAST_PANIC.with(|p| p.borrow_mut().take()).unwrap_or(("panic".into(), false));
            if in_avt {
                Caught::AvtPanic(msg)
            } else {
                Caught::HarnessPanic(msg)
            }
        }
    }
}

static HARNESS_BUG: Mutex<Option<String>> = Mutex::new(None);

pub fn harness_bug() -> Option<String> {
    HARNESS_BUG.lock().unwrap().clone()
}

/// Judge with panic capture: a panic inside avt while the property's check executes a
/// generated case is a violation for that input; a panic in harness code is an
/// infrastructure problem (exit 2), never a violation.
pub fn judge_caught(judge: &Judge<'_>, case: &Case, tally: &mut Tally) -> Verdict {
    match catch(|| judge(case, tally)) {
        Caught::Ok(v) => v,
        Caught::AvtPanic(m) => Verdict::fail("panic", format!("avt panicked: {}", m)),
        Caught::HarnessPanic(m) => {
            let mut g = HARNESS_BUG.lock().unwrap();
            if g.is_none() {
                *g = Some(format!("{} on case {}", m, case.render()));
            }
            Verdict::Invalid(format!("harness panic: {}", m))
        }
    }
}

// ---------------------------------------------------------------- watchdog

pub const HANG_SECS: u64 = 30;

struct Slot {
    started: Option<(Instant, String, Case)>,
}

static SLOTS: OnceLock<Vec<Mutex<Slot>>> = OnceLock::new();

/// re-judge hook (set by the binary): (property, part, case) -> verdict
pub type Rejudge = fn(&str, &str, &Case) -> Verdict;
static REJUDGE: OnceLock<Rejudge> = OnceLock::new();

pub fn set_rejudge(f: Rejudge) {
    let _ = REJUDGE.set(f);
}
static WATCHDOG_ON: AtomicBool = AtomicBool::new(false);

fn slots() -> &'static Vec<Mutex<Slot>> {
    SLOTS.get_or_init(|| (0..64).map(|_| Mutex::new(Slot { started: None })).collect())
}

pub fn start_watchdog(prop: String, verif_dir: PathBuf) {
    if WATCHDOG_ON.swap(true, Ordering::SeqCst) {
        return;
    }
    std::thread::spawn(move || loop {
        std::thread::sleep(std::time::Duration::from_millis(500));
        for s in slots().iter() {
            let g = s.lock().unwrap();
            if let Some((t, part, case)) = &g.started {
                if t.elapsed().as_secs() >= HANG_SECS {
                    let f = Failure {
                        part: part.clone(),
                        index: 0,
                        case: case.clone(),
                        sig: "hang".into(),
                        msg: format!("a single case ran for more than {} s (>1000x the slowest legitimate case)", HANG_SECS),
                    };
                    let path = write_replay(&verif_dir, &prop, &f, 0, "watchdog");
                    if prop == "C01" {
                        // confirm before raising the alarm: re-run the case twice in fresh
                        // threads; only if it exceeds the limit again both times is it a hang
                        // (a single slow run on an overloaded machine is inconclusive)
                        let mut confirmed = 0;
                        if let Some(rj) = REJUDGE.get() {
                            for _ in 0..2 {
                                let (tx, rx) = std::sync::mpsc::channel();
                                let (p2, part2, case2) = (prop.clone(), part.clone(), case.clone());
                                let rj = *rj;
                                std::thread::spawn(move || {
                                    let _ = rj(&p2, &part2, &case2);
                                    let _ = tx.send(());
                                });
                                if rx.recv_timeout(std::time::Duration::from_secs(HANG_SECS)).is_err() {
                                    confirmed += 1;
                                }
                            }
                        } else {
                            confirmed = 2;
                        }
                        if confirmed == 2 {
                            println!("VIOLATION property={} replay={}", prop, path.display());
                            std::process::exit(1);
                        }
                        eprintln!("INCONCLUSIVE: a case exceeded {} s once but finished in time when re-run (overloaded machine?); replay {}", HANG_SECS, path.display());
                        std::process::exit(2);
                    } else {
                        eprintln!("INCONCLUSIVE: case exceeded {} s in {} (replay {}); not a violation of {}", HANG_SECS, part, path.display(), prop);
                        std::process::exit(2);
                    }
                }
            }
        }
    });
}

pub fn slot_begin(w: usize, part: &str, case: &Case) {
    let mut g = slots()[w % 64].lock().unwrap();
    g.started = Some((Instant::now(), part.to_string(), case.clone()));
}

pub fn slot_end(w: usize) {
    let mut g = slots()[w % 64].lock().unwrap();
    g.started = None;
}

// ---------------------------------------------------------------- parts

struct WorkerOut {
    evaluations: u64,
    steps: u64,
    nontrivial: HashSet<u64>,
    classes: BTreeMap<String, u64>,
    samples: Vec<(u64, String)>,
    first: Vec<(usize, String)>,
    failure: Option<Failure>,
    known_hits: BTreeMap<String, u64>,
    excluded: u64,
    invalid: u64,
}

/// Run `total` indexed cases on `env.threads` workers. `make(i)` must be a pure function
/// of `i` (and of the seed it derives from it). Returns the merged report; the reported
/// failure is the one with the smallest index, shrunk.
pub fn run_part(
    env: &Env,
    name: &str,
    total: usize,
    exhaustive: bool,
    bounds: &str,
    make: &(dyn Fn(usize) -> Option<Case> + Sync),
    judge: &Judge<'_>,
) -> PartReport {
    let min_fail = AtomicUsize::new(usize::MAX);
    let threads = env.threads.max(1);
    let outs: Vec<WorkerOut> = std::thread::scope(|sc| {
        let mut hs = vec![];
        for w in 0..threads {
            let min_fail = &min_fail;
            hs.push(sc.spawn(move || {
                let mut o = WorkerOut {
                    evaluations: 0,
                    steps: 0,
                    nontrivial: HashSet::new(),
                    classes: BTreeMap::new(),
                    samples: vec![],
                    first: vec![],
                    failure: None,
                    known_hits: BTreeMap::new(),
                    excluded: 0,
                    invalid: 0,
                };
                let mut i = w;
                while i < total {
                    if i > min_fail.load(Ordering::Relaxed) {
                        break;
                    }
                    if let Some(case) = make(i) {
                        let mut t = Tally::default();
                        slot_begin(w, name, &case);
                        let v = judge_caught(judge, &case, &mut t);
                        slot_end(w);
                        o.evaluations += 1;
                        o.steps += t.steps;
                        o.excluded += t.excluded;
                        for k in &t.known_hits {
                            *o.known_hits.entry(k.clone()).or_default() += 1;
                        }
                        for c in &t.classes {
                            *o.classes.entry(c.to_string()).or_default() += 1;
                        }
                        if i < 2 {
                            o.first.push((i, case.render()));
                        }
                        if t.nontrivial {
                            let k = case.key();
                            if o.nontrivial.insert(k) {
                                // keep the 3 non-trivial cases with the smallest key as samples
                                if o.samples.len() < 3 || k < o.samples.last().unwrap().0 {
                                    o.samples.push((k, case.render()));
                                    o.samples.sort();
                                    o.samples.truncate(3);
                                }
                            }
                        }
                        match v {
                            Verdict::Pass => {}
                            Verdict::Invalid(_) => o.invalid += 1,
                            Verdict::Fail { sig, msg } => {
                                min_fail.fetch_min(i, Ordering::SeqCst);
                                if o.failure.as_ref().map(|f| i < f.index).unwrap_or(true) {
                                    o.failure = Some(Failure { part: name.to_string(), index: i, case, sig, msg });
                                }
                            }
                        }
                    }
                    i += threads;
                }
                o
            }));
        }
        hs.into_iter().map(|h| h.join().expect("worker")).collect()
    });
    let mut rep = PartReport { name: name.to_string(), exhaustive, bounds: bounds.to_string(), ..Default::default() };
    let mut samples: Vec<(u64, String)> = vec![];
    let mut first: Vec<(usize, String)> = vec![];
    for o in outs {
        rep.evaluations += o.evaluations;
        rep.steps += o.steps;
        rep.excluded += o.excluded;
        rep.invalid += o.invalid;
        rep.nontrivial.extend(o.nontrivial);
        for (k, v) in o.classes {
            *rep.classes.entry(k).or_default() += v;
        }
        for (k, v) in o.known_hits {
            *rep.known_hits.entry(k).or_default() += v;
        }
        samples.extend(o.samples);
        first.extend(o.first);
        if let Some(f) = o.failure {
            if rep.failure.as_ref().map(|g| f.index < g.index).unwrap_or(true) {
                rep.failure = Some(f);
            }
        }
    }
    samples.sort();
    samples.dedup();
    first.sort();
    rep.samples = first.into_iter().map(|x| x.1).chain(samples.into_iter().take(3).map(|x| x.1)).collect();
    if let Some(f) = rep.failure.take() {
        rep.failure = Some(shrink_failure(f, judge));
    }
    rep
}

/// Random part: case `i` is generated from PRNG seed mix(VERIF_SEED, part name, i).
pub fn random_part(env: &Env, name: &str, n: usize, gen: &(dyn Fn(&mut Src, usize) -> Case + Sync), judge: &Judge<'_>) -> PartReport {
    let h = hash_str(name);
    let seed = env.seed;
    let make = move |i: usize| -> Option<Case> {
        let mut src = Src::rng(mix(seed, h, i as u64));
        Some(gen(&mut src, i))
    };
    run_part(env, name, n, false, "", &make, judge)
}

pub fn shrink_failure(f: Failure, judge: &Judge<'_>) -> Failure {
    let sig = f.sig.clone();
    let mut last_msg = f.msg.clone();
    let best = {
        let mut still = |c: &Case| -> bool {
            let mut t = Tally::default();
            match judge_caught(judge, c, &mut t) {
                Verdict::Fail { sig: s, msg } if s == sig => {
                    last_msg = msg;
                    true
                }
                _ => false,
            }
        };
        shrink(&f.case, 4000, &mut still)
    };
    // re-judge the final case for its message
    let mut t = Tally::default();
    let msg = match judge_caught(judge, &best, &mut t) {
        Verdict::Fail { msg, .. } => msg,
        _ => last_msg,
    };
    Failure { case: best, msg, ..f }
}

/// Parallel fold over an index space for enumerations that do not go through `Case`.
pub fn par_fold<T: Send>(threads: usize, total: usize, init: &(dyn Fn() -> T + Sync), body: &(dyn Fn(usize, &mut T) + Sync)) -> Vec<T> {
    let threads = threads.max(1);
    let next = AtomicU64::new(0);
    let chunk: u64 = ((total / (threads * 64)).max(1)) as u64;
    std::thread::scope(|sc| {
        let mut hs = vec![];
        for _ in 0..threads {
            let next = &next;
            hs.push(sc.spawn(move || {
                let mut acc = init();
                loop {
                    let start = next.fetch_add(chunk, Ordering::Relaxed);
                    if start >= total as u64 {
                        break;
                    }
                    let end = (start + chunk).min(total as u64);
                    for i in start..end {
                        body(i as usize, &mut acc);
                    }
                }
                acc
            }));
        }
        hs.into_iter().map(|h| h.join().expect("worker")).collect()
    })
}

// ---------------------------------------------------------------- replay files

#[derive(Serialize, Deserialize, Debug, Clone)]
pub struct Replay {
    pub property: String,
    pub part: String,
    pub case: Case,
    #[serde(default)]
    pub sig: String,
    #[serde(default)]
    pub msg: String,
    #[serde(default)]
    pub rendered: String,
    #[serde(default)]
    pub seed: u64,
    #[serde(default)]
    pub found_by: String,
}

pub fn write_replay(verif_dir: &Path, prop: &str, f: &Failure, seed: u64, found_by: &str) -> PathBuf {
    let dir = verif_dir.join("work").join("violations");
    let _ = std::fs::create_dir_all(&dir);
    let path = dir.join(format!("{}-{}-{:016x}.json", prop, f.part.replace(['/', ' '], "_"), f.case.key()));
    let r = Replay {
        property: prop.to_string(),
        part: f.part.clone(),
        case: f.case.clone(),
        sig: f.sig.clone(),
        msg: f.msg.clone(),
        rendered: f.case.render(),
        seed,
        found_by: found_by.to_string(),
    };
    let _ = std::fs::write(&path, serde_json::to_string_pretty(&r).unwrap());
    path
}

pub fn read_replay(path: &Path) -> Result<Replay, String> {
    let s = std::fs::read_to_string(path).map_err(|e| format!("cannot read {}: {}", path.display(), e))?;
    serde_json::from_str(&s).map_err(|e| format!("cannot parse {}: {}", path.display(), e))
}

// ---------------------------------------------------------------- known findings

#[derive(Serialize, Deserialize, Debug, Clone)]
pub struct Finding {
    pub id: String,
    pub property: String,
    /// "open" or "fixed"
    pub status: String,
    /// name of the semantic predicate in the harness that recognises this finding
    #[serde(default)]
    pub signature: String,
    pub replay: String,
    pub what: String,
    #[serde(default)]
    pub commit: String,
    /// for fixed entries: the line "fixed: property=<id> <commit> <what failed>"
    #[serde(default)]
    pub line: String,
}

#[derive(Serialize, Deserialize, Debug, Clone, Default)]
pub struct KnownFindings {
    pub findings: Vec<Finding>,
}

pub fn load_known(verif_dir: &Path) -> KnownFindings {
    let p = verif_dir.join("known_findings.json");
    match std::fs::read_to_string(&p) {
        Ok(s) => serde_json::from_str(&s).unwrap_or_else(|e| {
            eprintln!("cannot parse {}: {}", p.display(), e);
            std::process::exit(2);
        }),
        Err(_) => KnownFindings::default(),
    }
}

// ---------------------------------------------------------------- evidence

pub struct EvidenceMeta {
    pub rule: String,
    pub assumptions: Vec<String>,
    pub not_compared: Vec<String>,
}

pub fn write_evidence(env: &Env, parts: &[PartReport], meta: &EvidenceMeta, wall_s: f64, violations: usize, extra: serde_json::Value) {
    let evaluations: u64 = parts.iter().map(|p| p.evaluations).sum();
    let mut nontrivial: u64 = 0;
    for p in parts {
        nontrivial += p.nontrivial.len() as u64 + p.nontrivial_counted;
    }
    let mut samples: Vec<serde_json::Value> = vec![];
    for p in parts {
        for s in p.samples.iter().take(4) {
            samples.push(json!({"part": p.name, "case": s}));
        }
    }
    if samples.is_empty() {
        samples.push(json!("(no case rendered)"));
    }
    let mut classes: BTreeMap<String, u64> = BTreeMap::new();
    let mut known_hits: BTreeMap<String, u64> = BTreeMap::new();
    for p in parts {
        for (k, v) in &p.classes {
            *classes.entry(format!("{}:{}", p.name, k)).or_default() += v;
        }
        for (k, v) in &p.known_hits {
            *known_hits.entry(k.clone()).or_default() += v;
        }
    }
    let parts_json: Vec<serde_json::Value> = parts
        .iter()
        .map(|p| {
            json!({
                "name": p.name, "evaluations": p.evaluations, "judged_steps": p.steps,
                "distinct_nontrivial": p.nontrivial.len() as u64 + p.nontrivial_counted, "exhaustive": p.exhaustive, "bounds": p.bounds,
                "invalid_discarded": p.invalid, "excluded_by_construction": p.excluded,
            })
        })
        .collect();
    let all_exhaustive = !parts.is_empty() && parts.iter().all(|p| p.exhaustive);
    let ev = json!({
        "property_id": env.prop,
        "tier": env.tier.name(),
        "seed": env.seed,
        "level": "exploration",
        "coverage": {
            "evaluations": evaluations,
            "distinct_nontrivial": nontrivial,
            "rule": meta.rule,
            "samples": samples,
            "exhaustive": all_exhaustive,
            "judged_steps": parts.iter().map(|p| p.steps).sum::<u64>(),
            "parts": parts_json,
            "classes": classes,
            "known_finding_hits": known_hits,
            "excluded_by_construction": parts.iter().map(|p| p.excluded).sum::<u64>(),
            "not_compared": meta.not_compared,
            "extra": extra,
        },
        "assumptions": meta.assumptions,
        "wall_s": wall_s,
        "violations": violations,
    });
    let dir = std::env::var("VERIF_EVIDENCE_DIR").map(PathBuf::from).unwrap_or_else(|_| env.verif_dir.join("evidence"));
    let _ = std::fs::create_dir_all(&dir);
    let path = dir.join(format!("{}.json", env.prop));
    if let Err(e) = std::fs::write(&path, serde_json::to_string_pretty(&ev).unwrap()) {
        eprintln!("cannot write evidence {}: {}", path.display(), e);
        std::process::exit(2);
    }
}
