//! Plain-data mirror of avt::parser::Function, produced both by the reference parser
//! and by converting what avt's parser returns.
use avt::parser as ap;

#[derive(Debug, Clone, Copy, PartialEq, Eq, Hash)]
pub enum RefColor { Idx(u8), Rgb(u8, u8, u8) }

#[derive(Debug, Clone, Copy, PartialEq, Eq, Hash)]
pub enum SgrItem {
    Reset, Bold, Faint, Italic, Underline, Blink, Inverse, Strike,
    NoIntensity, NoItalic, NoUnderline, NoBlink, NoInverse, NoStrike,
    Fg(RefColor), NoFg, Bg(RefColor), NoBg,
}

#[derive(Debug, Clone, PartialEq, Eq, Hash)]
pub enum RefFn {
    Print(char), Bs, Ht, Lf, Cr, So, Si, Nel, Hts, Ri,
    Ich(u16), Cuu(u16), Cud(u16), Cuf(u16), Cub(u16), Cnl(u16), Cpl(u16), Cha(u16),
    Cup(u16, u16), Cht(u16), Ed(u8), El(u8), Il(u16), Dl(u16), Dch(u16), Su(u16), Sd(u16),
    Ctc(u8), Ech(u16), Cbt(u16), Rep(u16), Vpa(u16), Vpr(u16), Tbc(u8),
    Sm(Vec<u16>), Rm(Vec<u16>), Sgr(Vec<SgrItem>), Decstbm(u16, u16), Scosc, Scorc,
    Xtwinops(u16, u16), Decstr, Decset(Vec<u16>), Decrst(Vec<u16>),
    Decsc, Decrc, Ris, Decaln, Gzd4(bool), G1d4(bool),
}

fn color(c: &avt::Color) -> RefColor {
    match c { avt::Color::Indexed(i) => RefColor::Idx(*i), avt::Color::RGB(c) => RefColor::Rgb(c.r, c.g, c.b) }
}

fn dec(m: &ap::DecMode) -> u16 {
    use ap::DecMode::*;
    match m { CursorKeys => 1, Origin => 6, AutoWrap => 7, TextCursorEnable => 25, AltScreenBuffer => 1047, SaveCursor => 1048, SaveCursorAltScreenBuffer => 1049 }
}
fn ansi(m: &ap::AnsiMode) -> u16 { match m { ap::AnsiMode::Insert => 4, ap::AnsiMode::NewLine => 20 } }

pub fn from_avt(f: &ap::Function) -> RefFn {
    use ap::Function as F;
    match f {
        F::Bs => RefFn::Bs, F::Cbt(n) => RefFn::Cbt(*n), F::Cha(n) => RefFn::Cha(*n), F::Cht(n) => RefFn::Cht(*n),
        F::Cnl(n) => RefFn::Cnl(*n), F::Cpl(n) => RefFn::Cpl(*n), F::Cr => RefFn::Cr,
        F::Ctc(op) => RefFn::Ctc(match op { ap::CtcOp::Set => 0, ap::CtcOp::ClearCurrentColumn => 2, ap::CtcOp::ClearAll => 5 }),
        F::Cub(n) => RefFn::Cub(*n), F::Cud(n) => RefFn::Cud(*n), F::Cuf(n) => RefFn::Cuf(*n), F::Cup(r, c) => RefFn::Cup(*r, *c),
        F::Cuu(n) => RefFn::Cuu(*n), F::Dch(n) => RefFn::Dch(*n), F::Decaln => RefFn::Decaln, F::Decrc => RefFn::Decrc,
        F::Decrst(ms) => RefFn::Decrst(ms.iter().map(dec).collect()), F::Decsc => RefFn::Decsc,
        F::Decset(ms) => RefFn::Decset(ms.iter().map(dec).collect()), F::Decstbm(t, b) => RefFn::Decstbm(*t, *b),
        F::Decstr => RefFn::Decstr, F::Dl(n) => RefFn::Dl(*n), F::Ech(n) => RefFn::Ech(*n),
        F::Ed(s) => RefFn::Ed(match s { ap::EdScope::Below => 0, ap::EdScope::Above => 1, ap::EdScope::All => 2, ap::EdScope::SavedLines => 3 }),
        F::El(s) => RefFn::El(match s { ap::ElScope::ToRight => 0, ap::ElScope::ToLeft => 1, ap::ElScope::All => 2 }),
        F::G1d4(cs) => RefFn::G1d4(format!("{:?}", cs) == "Drawing"), F::Gzd4(cs) => RefFn::Gzd4(format!("{:?}", cs) == "Drawing"),
        F::Ht => RefFn::Ht, F::Hts => RefFn::Hts, F::Ich(n) => RefFn::Ich(*n), F::Il(n) => RefFn::Il(*n), F::Lf => RefFn::Lf,
        F::Nel => RefFn::Nel, F::Print(c) => RefFn::Print(*c), F::Rep(n) => RefFn::Rep(*n), F::Ri => RefFn::Ri, F::Ris => RefFn::Ris,
        F::Rm(ms) => RefFn::Rm(ms.iter().map(ansi).collect()), F::Scorc => RefFn::Scorc, F::Scosc => RefFn::Scosc, F::Sd(n) => RefFn::Sd(*n),
        F::Sgr(ops) => RefFn::Sgr(ops.iter().map(|op| { use ap::SgrOp::*; match op {
            Reset => SgrItem::Reset, SetBoldIntensity => SgrItem::Bold, SetFaintIntensity => SgrItem::Faint, SetItalic => SgrItem::Italic,
            SetUnderline => SgrItem::Underline, SetBlink => SgrItem::Blink, SetInverse => SgrItem::Inverse, SetStrikethrough => SgrItem::Strike,
            ResetIntensity => SgrItem::NoIntensity, ResetItalic => SgrItem::NoItalic, ResetUnderline => SgrItem::NoUnderline, ResetBlink => SgrItem::NoBlink,
            ResetInverse => SgrItem::NoInverse, ResetStrikethrough => SgrItem::NoStrike, SetForegroundColor(c) => SgrItem::Fg(color(c)),
            ResetForegroundColor => SgrItem::NoFg, SetBackgroundColor(c) => SgrItem::Bg(color(c)), ResetBackgroundColor => SgrItem::NoBg } }).collect()),
        F::Si => RefFn::Si, F::Sm(ms) => RefFn::Sm(ms.iter().map(ansi).collect()), F::So => RefFn::So, F::Su(n) => RefFn::Su(*n),
        F::Tbc(s) => RefFn::Tbc(match s { ap::TbcScope::CurrentColumn => 0, ap::TbcScope::All => 3 }),
        F::Vpa(n) => RefFn::Vpa(*n), F::Vpr(n) => RefFn::Vpr(*n),
        F::Xtwinops(ap::XtwinopsOp::Resize(c, r)) => RefFn::Xtwinops(*c, *r),
    }
}
