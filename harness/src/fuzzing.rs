//! Entry points for the libFuzzer targets (fuzz/fuzz_targets/*.rs). The semantic oracle
//! runs inside the target: on a violation the shrunk-free concrete case is written as a
//! replay file under work/violations/ and the target panics, so libFuzzer stops with an
//! artifact; `./check <ID> thorough` then re-judges the replay with `vcheck --replay`
//! (release build, strict) before printing a VIOLATION line.

use crate::case::{Call, Case, Verdict};
use crate::engine::{init_globals, install_panic_hook, judge_caught, load_known, write_replay, Failure, Tally};
use crate::props;
use crate::src::Src;
use std::path::PathBuf;
use std::sync::Once;

static INIT: Once = Once::new();

fn verif_dir() -> PathBuf {
    std::env::var("VERIF_DIR").map(PathBuf::from).unwrap_or_else(|_| PathBuf::from("/verif"))
}

fn init() {
    INIT.call_once(|| {
        let known = load_known(&verif_dir());
        let open: Vec<String> = known.findings.iter().filter(|f| f.status == "open").map(|f| f.id.clone()).collect();
        init_globals(open);
        install_panic_hook();
    });
}

fn check(prop: &str, part: &str, case: &Case) {
    let jf = |c: &Case, t: &mut Tally| props::judge(prop, part, c, t).unwrap_or(Verdict::Invalid("unknown property".into()));
    let mut t = Tally::default();
    if let Verdict::Fail { sig, msg } = judge_caught(&jf, case, &mut t) {
        let f = Failure { part: part.to_string(), index: 0, case: case.clone(), sig: sig.clone(), msg: msg.clone() };
        let path = write_replay(&verif_dir(), prop, &f, 0, "libFuzzer");
        eprintln!("FUZZ-VIOLATION property={} replay={} [{}] {}", prop, path.display(), sig, msg);
        std::process::abort();
    }
}

/// structured target: bytes are the choice sequence of the property's own generators
pub fn structured(_prop: &str, data: &[u8]) {
    run_target("structured", data);
}

/// text target: the bytes (lossy UTF-8) *are* the terminal input; a small header picks
/// size and limit; U+FFFD (any invalid byte) separates calls; a segment starting with
/// 'R' is a resize, with 'F' a per-character feed().
pub fn text_case(data: &[u8]) -> Option<Case> {
    if data.len() < 3 {
        return None;
    }
    let sizes = [1usize, 2, 3, 4, 5, 7, 8, 9, 10, 16, 17, 24, 40, 80];
    let cols = sizes[(data[0] as usize) % sizes.len()];
    let rows = [1usize, 2, 3, 4, 5, 6, 7, 24][(data[1] as usize) % 8];
    // no unlimited scrollback here: a single SU 65535 would otherwise leave 65535 lines
    // behind and every later invariant check would walk them (throughput, not soundness)
    let limit = [Some(100), Some(0), Some(1), Some(3), Some(10), Some(25)][(data[2] as usize) % 6];
    let text = String::from_utf8_lossy(&data[3..]).to_string();
    let mut case = Case::new(cols, rows, limit);
    for seg in text.split('\u{fffd}') {
        let mut chars = seg.chars();
        match chars.clone().next() {
            Some('R') => {
                chars.next();
                let c = chars.next().map(|c| (c as usize) % 40 + 1).unwrap_or(1);
                let r = chars.next().map(|c| (c as usize) % 12 + 1).unwrap_or(1);
                case.calls.push(Call::Resize(c, r));
                let rest: String = chars.collect();
                if !rest.is_empty() {
                    case.calls.push(Call::FeedStr(rest));
                }
            }
            Some('F') => {
                chars.next();
                case.calls.push(Call::Feed(chars.collect()));
            }
            Some(_) => case.calls.push(Call::FeedStr(seg.to_string())),
            None => case.calls.push(Call::Query),
        }
    }
    case.nums = vec![data[0] as usize % 3, (data[1] as usize / 8) % 2];
    Some(case)
}

/// Which (property, part, case) triples does an input of `target` stand for? `prop`
/// restricts the text targets to one property's judge (VERIF_FUZZ_PROP).
pub fn decode(target: &str, prop: Option<&str>, data: &[u8]) -> Vec<(String, String, Case)> {
    let mut out = vec![];
    let want = |p: &str| prop.map(|x| x == p).unwrap_or(true);
    match target {
        "ops_total" => {
            if let Some(case) = text_case(data) {
                if want("C01") {
                    out.push(("C01".to_string(), "garbage".to_string(), case.clone()));
                }
                if want("C02") {
                    out.push(("C02".to_string(), "raw-histories".to_string(), case.clone()));
                }
                if want("C15") {
                    out.push(("C15".to_string(), "multi-op-calls".to_string(), case.clone()));
                }
                if want("C13") && case.limit.is_some() {
                    out.push(("C13".to_string(), "random-histories".to_string(), case));
                }
            }
        }
        "parser_diff" => {
            let text = String::from_utf8_lossy(data).to_string();
            out.push(("C03".to_string(), "random-streams".to_string(), Case::new(1, 1, None).feed(text)));
        }
        "chunk_split" => {
            if let Some(mut case) = text_case(data) {
                case.calls.retain(|c| matches!(c, Call::FeedStr(_) | Call::Feed(_)));
                let n: usize = case.calls.iter().map(|c| if let Call::FeedStr(s) | Call::Feed(s) = c { s.chars().count() } else { 0 }).sum();
                if n <= 300 {
                    case.nums = vec![0];
                    out.push(("C12".to_string(), "raw".to_string(), case));
                }
            }
        }
        "structured" => {
            if let Some(p) = prop {
                let mut src = Src::bytes(data);
                if let Some((part, case)) = props::fuzz_gen(p, &mut src) {
                    out.push((p.to_string(), part.to_string(), case));
                }
            }
        }
        _ => {}
    }
    out
}

fn env_prop() -> Option<String> {
    std::env::var("VERIF_FUZZ_PROP").ok().filter(|s| !s.is_empty())
}

pub fn run_target(target: &str, data: &[u8]) {
    init();
    let prop = env_prop();
    for (p, part, case) in decode(target, prop.as_deref(), data) {
        check(&p, &part, &case);
    }
}

pub fn ops_total(data: &[u8]) {
    run_target("ops_total", data);
}

pub fn parser_diff(data: &[u8]) {
    run_target("parser_diff", data);
}

pub fn chunk_split(data: &[u8]) {
    run_target("chunk_split", data);
}
