//! vcheck <ID> [quick|thorough] [--replay <file>] [--seed N] [--threads N]
//! exit 0 = held on everything explored; 1 = VIOLATION line printed; 2 = infrastructure.

use avt_verif::case::Verdict;
use avt_verif::engine::*;
use avt_verif::props;
use std::path::PathBuf;
use std::time::Instant;

fn usage() -> ! {
    eprintln!("usage: vcheck <C01..C20> [quick|thorough] [--replay <file>] [--seed N] [--threads N]");
    std::process::exit(2);
}

fn main() {
    let args: Vec<String> = std::env::args().skip(1).collect();
    if args.is_empty() {
        usage();
    }
    let prop = args[0].clone();
    let mut tier = match std::env::var("VERIF_TIER").ok().as_deref() {
        Some("thorough") => Tier::Thorough,
        _ => Tier::Quick,
    };
    let mut tier_from_arg = false;
    let mut replay: Option<PathBuf> = None;
    let mut seed: u64 = std::env::var("VERIF_SEED").ok().and_then(|s| s.trim().parse::<i128>().ok()).map(|v| v as u64).unwrap_or(0);
    let mut threads: usize = std::thread::available_parallelism().map(|n| n.get()).unwrap_or(8).min(16);
    let mut i = 1;
    while i < args.len() {
        match args[i].as_str() {
            "quick" => {
                tier = Tier::Quick;
                tier_from_arg = true;
            }
            "thorough" => {
                tier = Tier::Thorough;
                tier_from_arg = true;
            }
            "--replay" => {
                i += 1;
                replay = Some(PathBuf::from(args.get(i).cloned().unwrap_or_else(|| usage())));
            }
            "--seed" => {
                i += 1;
                seed = args.get(i).and_then(|s| s.parse().ok()).unwrap_or_else(|| usage());
            }
            "--threads" => {
                i += 1;
                threads = args.get(i).and_then(|s| s.parse().ok()).unwrap_or_else(|| usage());
            }
            _ => usage(),
        }
        i += 1;
    }
    let _ = tier_from_arg;
    let verif_dir = std::env::var("VERIF_DIR").map(PathBuf::from).unwrap_or_else(|_| PathBuf::from("/verif"));
    let env = Env { prop: prop.clone(), tier, seed, threads, verif_dir: verif_dir.clone() };
    install_panic_hook();

    let known = load_known(&verif_dir);
    let open: Vec<String> = known.findings.iter().filter(|f| f.status == "open").map(|f| f.id.clone()).collect();
    init_globals(open);
    fn rejudge(prop: &str, part: &str, case: &avt_verif::case::Case) -> Verdict {
        let mut t = Tally::default();
        props::judge(prop, part, case, &mut t).unwrap_or(Verdict::Pass)
    }
    set_rejudge(rejudge);
    start_watchdog(prop.clone(), verif_dir.clone());

    // ---- replay mode: re-judge one file strictly (known findings not tolerated)
    if let Some(path) = replay {
        set_strict(true);
        let r = match read_replay(&path) {
            Ok(r) => r,
            Err(e) => {
                eprintln!("{}", e);
                std::process::exit(2);
            }
        };
        if r.property != prop {
            eprintln!("replay file is for property {}, not {}", r.property, prop);
            std::process::exit(2);
        }
        let mut t = Tally::default();
        let jf = |c: &avt_verif::case::Case, t: &mut Tally| props::judge(&prop, &r.part, c, t).unwrap_or(Verdict::Invalid("unknown property".into()));
        slot_begin(0, &r.part, &r.case);
        let verdict = judge_caught(&jf, &r.case, &mut t);
        slot_end(0);
        match verdict {
            Verdict::Pass => {
                println!("replay {}: property {} holds on this case", path.display(), prop);
                std::process::exit(0);
            }
            Verdict::Fail { sig, msg } => {
                println!("replay {}: [{}] {}", path.display(), sig, msg);
                println!("case: {}", r.case.render());
                println!("VIOLATION property={} replay={}", prop, path.display());
                std::process::exit(1);
            }
            Verdict::Invalid(m) => {
                eprintln!("replay {} is outside the domain of {}: {}", path.display(), prop, m);
                std::process::exit(2);
            }
        }
    }

    let t0 = Instant::now();
    let mut violations = 0usize;

    // ---- listed findings first
    for f in known.findings.iter().filter(|f| f.property == prop) {
        let path = verif_dir.join(&f.replay);
        let r = match read_replay(&path) {
            Ok(r) => r,
            Err(e) => {
                eprintln!("known finding {}: {}", f.id, e);
                std::process::exit(2);
            }
        };
        set_strict(true);
        let mut t = Tally::default();
        let jf = |c: &avt_verif::case::Case, t: &mut Tally| props::judge(&prop, &r.part, c, t).unwrap_or(Verdict::Invalid("unknown property".into()));
        let v = judge_caught(&jf, &r.case, &mut t);
        set_strict(false);
        match (f.status.as_str(), v) {
            ("open", Verdict::Fail { .. }) => println!("KNOWN-FINDING: property={} {} ({}; replay {})", prop, f.what, f.id, f.replay),
            ("open", Verdict::Pass) => println!("NOTE: known finding {} no longer reproduces on this tree (replay {})", f.id, f.replay),
            ("fixed", Verdict::Pass) => {}
            ("fixed", Verdict::Fail { sig, msg }) => {
                println!("regression of fixed finding {}: [{}] {}", f.id, sig, msg);
                println!("VIOLATION property={} replay={}", prop, path.display());
                violations += 1;
            }
            (_, Verdict::Invalid(m)) => {
                eprintln!("known finding {}: replay outside the domain: {}", f.id, m);
                std::process::exit(2);
            }
            _ => {}
        }
    }

    let Some(mut run) = props::run(&env) else {
        eprintln!("unknown property {}", prop);
        std::process::exit(2);
    };
    // thorough tier: coverage-guided stage (libFuzzer through cargo-fuzz), unless a
    // violation is already known or the stage is switched off
    // VERIF_ONLY_FUZZ=1 (harness development): judge the coverage-guided stage alone
    let only_fuzz = std::env::var("VERIF_ONLY_FUZZ").is_ok();
    if only_fuzz {
        run.parts.clear();
    }
    let already_failed = run.parts.iter().any(|p| p.failure.is_some());
    if (tier == Tier::Thorough || only_fuzz) && !already_failed && std::env::var("VERIF_NO_FUZZ").is_err() {
        if let Err(e) = avt_verif::fuzzstage::build(&env) {
            eprintln!("FUZZ BUILD PROBLEM (infrastructure, not a violation): {}", e);
            std::process::exit(2);
        }
        for plan in avt_verif::fuzzstage::plans(&prop) {
            match avt_verif::fuzzstage::run_plan(&env, &plan) {
                Ok(rep) => run.parts.push(rep),
                Err(e) => {
                    eprintln!("FUZZ STAGE PROBLEM (infrastructure, not a violation): {}", e);
                    std::process::exit(2);
                }
            }
        }
    }
    if let Some(bug) = harness_bug() {
        eprintln!("HARNESS PROBLEM (not a violation): {}", bug);
        std::process::exit(2);
    }
    for p in &run.parts {
        if let Some(f) = &p.failure {
            let path = write_replay(&verif_dir, &prop, f, seed, &format!("{} {} index {}", tier.name(), p.name, f.index));
            println!("counterexample ({}): [{}] {}", p.name, f.sig, f.msg);
            println!("case: {}", f.case.render());
            println!("VIOLATION property={} replay={}", prop, path.display());
            violations += 1;
        }
    }
    let wall = t0.elapsed().as_secs_f64();
    write_evidence(&env, &run.parts, &run.meta, wall, violations, run.extra);
    let evals: u64 = run.parts.iter().map(|p| p.evaluations).sum();
    let nt: usize = run.parts.iter().map(|p| p.nontrivial.len() + p.nontrivial_counted as usize).sum();
    println!("{} {} seed={} evaluations={} distinct_nontrivial={} violations={} wall={:.1}s", prop, tier.name(), seed, evals, nt, violations, wall);
    for p in &run.parts {
        println!("  part {:<22} evals={:<9} steps={:<10} nontrivial={:<8} exhaustive={} known_hits={:?} excluded={} invalid={}", p.name, p.evaluations, p.steps, p.nontrivial.len() + p.nontrivial_counted as usize, p.exhaustive, p.known_hits, p.excluded, p.invalid);
    }
    std::process::exit(if violations > 0 { 1 } else { 0 });
}
