//! Shared model-based judge for C04–C07 and C18: walk a case, compare every step with
//! the one-step spec, and fail on mismatches of the function classes the calling
//! property owns.  Mismatches on foreign classes are left to their owning property.

use crate::case::{Case, Verdict};
use crate::engine::Tally;
use crate::model::Screen;
use crate::observe::{fmt_line, LineSpec};
use crate::reffn::RefFn;
use crate::walk::{Event, StepRec, WalkEnd, Walker};

#[derive(Clone, Copy, Debug, PartialEq, Eq)]
pub enum Class {
    Print,   // C04: Print, Rep, So, Si, Gzd4, G1d4, Sm/Rm (IRM), Decset/Decrst 7
    Cursor,  // C05
    Scroll,  // C06: Su, Sd, Il, Dl, Decstbm, and LF/IND/NEL/RI/print when they scroll
    Edit,    // C07
    Tabs,    // C18: Hts, Ctc, Tbc, Ht, Cht, Cbt
    Other,
}

pub fn kind(f: &RefFn) -> &'static str {
    use RefFn::*;
    match f {
        Print(_) => "Print", Bs => "Bs", Ht => "Ht", Lf => "Lf", Cr => "Cr", So => "So", Si => "Si", Nel => "Nel", Hts => "Hts", Ri => "Ri",
        Ich(_) => "Ich", Cuu(_) => "Cuu", Cud(_) => "Cud", Cuf(_) => "Cuf", Cub(_) => "Cub", Cnl(_) => "Cnl", Cpl(_) => "Cpl", Cha(_) => "Cha",
        Cup(..) => "Cup", Cht(_) => "Cht", Ed(_) => "Ed", El(_) => "El", Il(_) => "Il", Dl(_) => "Dl", Dch(_) => "Dch", Su(_) => "Su", Sd(_) => "Sd",
        Ctc(_) => "Ctc", Ech(_) => "Ech", Cbt(_) => "Cbt", Rep(_) => "Rep", Vpa(_) => "Vpa", Vpr(_) => "Vpr", Tbc(_) => "Tbc",
        Sm(_) => "Sm", Rm(_) => "Rm", Sgr(_) => "Sgr", Decstbm(..) => "Decstbm", Scosc => "Scosc", Scorc => "Scorc",
        Xtwinops(..) => "Xtwinops", Decstr => "Decstr", Decset(_) => "Decset", Decrst(_) => "Decrst",
        Decsc => "Decsc", Decrc => "Decrc", Ris => "Ris", Decaln => "Decaln", Gzd4(_) => "Gzd4", G1d4(_) => "G1d4",
    }
}

/// Which property owns a step. LF/IND/NEL/RI are cursor moves unless they scrolled;
/// a print is a scroll step too when its wrap scrolled the region (both C04 and C06
/// state that behaviour, so both judge it).
pub fn classes(rec: &StepRec) -> Vec<Class> {
    use RefFn::*;
    let scrolled = rec.eff.scrolled.is_some();
    match rec.f {
        Print(_) | Rep(_) => {
            if scrolled { vec![Class::Print, Class::Scroll] } else { vec![Class::Print] }
        }
        So | Si | Gzd4(_) | G1d4(_) => vec![Class::Print],
        Sm(_) | Rm(_) => vec![Class::Print],
        Decset(ms) | Decrst(ms) => {
            let mut v = vec![];
            if ms.contains(&7) { v.push(Class::Print); }
            if ms.contains(&6) { v.push(Class::Cursor); }
            if v.is_empty() { v.push(Class::Other); }
            v
        }
        Lf | Nel | Ri => { if scrolled { vec![Class::Scroll] } else { vec![Class::Cursor] } }
        Bs | Cr | Cuu(_) | Cud(_) | Cuf(_) | Cub(_) | Cnl(_) | Cpl(_) | Cha(_) | Cup(..) | Vpa(_) | Vpr(_) => vec![Class::Cursor],
        Ht | Cht(_) | Cbt(_) => vec![Class::Cursor, Class::Tabs],
        Hts | Ctc(_) | Tbc(_) => vec![Class::Tabs],
        Su(_) | Sd(_) | Il(_) | Dl(_) => vec![Class::Scroll],
        Decstbm(..) => vec![Class::Scroll, Class::Cursor],
        Ed(k) => { if *k == 3 { vec![Class::Other] } else { vec![Class::Edit] } }
        El(_) | Ech(_) | Ich(_) | Dch(_) | Decaln => vec![Class::Edit],
        _ => vec![Class::Other],
    }
}

pub struct Mismatch {
    pub what: &'static str,
    pub detail: String,
}

fn first_cell_diff(a: &Screen, b: &Screen) -> String {
    for r in 0..a.rows.min(b.rows) {
        for c in 0..a.cols.min(b.cols) {
            if a.cells[r][c] != b.cells[r][c] {
                return format!("cell (col {}, row {}): expected {:?}, got {:?}", c, r, a.cells[r][c], b.cells[r][c]);
            }
        }
    }
    "size".into()
}

/// Compare expected vs observed for one step, honouring what the statements leave open.
pub fn compare_step(rec: &StepRec) -> Option<Mismatch> {
    let (exp, got) = (rec.exp, rec.got);
    if rec.left_alt {
        // content comes from the parked primary buffer (C16's subject); the cursor is
        // predictable only if that buffer was not re-flowed on re-activation
        if !rec.stale_primary && (got.col, got.row) != (exp.col, exp.row) {
            return Some(Mismatch { what: "cursor", detail: format!("cursor after returning to the primary screen: expected ({},{}), got ({},{})", exp.col, exp.row, got.col, got.row) });
        }
        return None;
    }
    if got.cells != exp.cells {
        return Some(Mismatch { what: "cells", detail: first_cell_diff(exp, got) });
    }
    if got.wraps != exp.wraps {
        return Some(Mismatch { what: "wraps", detail: format!("soft-wrap marks: expected {:?}, got {:?}", exp.wraps, got.wraps) });
    }
    if !rec.eff.cursor_unspecified {
        let col_ok = rec.eff.col_unspecified || got.col == exp.col;
        if got.row != exp.row || !col_ok {
            return Some(Mismatch { what: "cursor", detail: format!("cursor: expected (col {}, row {}), got (col {}, row {})", exp.col, exp.row, got.col, got.row) });
        }
    }
    None
}

/// Scrollback relation for one step (C06): lines() above the view afterwards must be
/// the lines above the view before plus exactly the rows the spec says were scrolled
/// off the top of the primary screen. Only meaningful with unlimited scrollback.
pub fn compare_scrollback(rec: &StepRec, rows_pre: usize, rows_post: usize) -> Option<Mismatch> {
    let (Some(pre), Some(post)) = (rec.lines_pre, rec.lines_post) else { return None };
    if rec.eff.ris || rec.left_alt {
        return None;
    }
    let sb_pre: &[LineSpec] = &pre[..pre.len() - rows_pre];
    let sb_post: &[LineSpec] = &post[..post.len() - rows_post];
    let mut want: Vec<LineSpec> = vec![];
    if rec.m_post.alt {
        // the alternate screen keeps no scrollback
    } else {
        want.extend_from_slice(sb_pre);
        want.extend(rec.eff.scrolled_off.iter().cloned());
    }
    if sb_post != &want[..] {
        let show = |v: &[LineSpec]| v.iter().rev().take(4).rev().map(fmt_line).collect::<Vec<_>>().join(" | ");
        return Some(Mismatch {
            what: "scrollback",
            detail: format!("scrollback after the step has {} lines (tail: {}), expected {} (tail: {})", sb_post.len(), show(sb_post), want.len(), show(&want)),
        });
    }
    None
}

pub struct SpecOpts {
    pub own: Class,
    /// compare the scrollback relation on owned steps (C06) — needs unlimited scrollback
    pub scrollback: bool,
}

/// Walk + judge. `on_step` lets the property add its own non-triviality bookkeeping.
pub fn spec_judge(case: &Case, opts: &SpecOpts, tally: &mut Tally, on_step: &mut dyn FnMut(&StepRec, &mut Tally)) -> Verdict {
    let mut w = Walker::new(case);
    w.record_lines = opts.scrollback && case.limit.is_none();
    let mut foreign = 0u64;
    let mut rows_pre = case.rows;
    let end = w.walk(case, &mut |wk, ev| {
        match ev {
            Event::Step(rec) => {
                let cls = classes(&rec);
                let own = cls.contains(&opts.own);
                let mm = compare_step(&rec);
                if own {
                    tally.steps += 1;
                    on_step(&rec, tally);
                    if let Some(m) = mm {
                        return Some(Verdict::fail(
                            format!("{}-{}", kind(rec.f), m.what),
                            format!("after {:?} (call {}): {}; modes before: top={} bottom={} origin={} autowrap={} insert={} alt={}; cursor before ({},{})",
                                rec.f, rec.call_idx, m.detail, rec.m_pre.top, rec.m_pre.bot, rec.m_pre.origin, rec.m_pre.autowrap, rec.m_pre.insert, rec.m_pre.alt, rec.pre.col, rec.pre.row),
                        ));
                    }
                    if opts.scrollback {
                        if let Some(m) = compare_scrollback(&rec, rows_pre, wk.rows) {
                            return Some(Verdict::fail(format!("{}-{}", kind(rec.f), m.what), format!("after {:?} (call {}): {}", rec.f, rec.call_idx, m.detail)));
                        }
                    }
                } else {
                    if mm.is_some() {
                        foreign += 1;
                    }
                    // "no other control function adds to the scrollback" (C06)
                    if opts.scrollback && !rec.eff.scrolled.is_some() {
                        if let Some(m) = compare_scrollback(&rec, rows_pre, wk.rows) {
                            return Some(Verdict::fail(format!("{}-{}", kind(rec.f), m.what), format!("after non-scrolling {:?} (call {}): {}", rec.f, rec.call_idx, m.detail)));
                        }
                    }
                }
                rows_pre = wk.rows;
                None
            }
            Event::Resized { .. } => {
                rows_pre = wk.rows;
                None
            }
            Event::CallEnd { .. } => None,
        }
    });
    if foreign > 0 {
        tally.class("foreign_mismatch");
    }
    match end {
        WalkEnd::Done => Verdict::Pass,
        WalkEnd::Stopped(v) => v,
    }
}

/// "No mode changes" frame (C04-C07): hidden state is only observable through
/// behaviour, so for a case whose last call consists only of functions for which
/// `pure` holds (functions whose whole legitimate effect is on cells, soft-wrap marks,
/// cursor and scrollback), the metamorphic pair
///     (history, cmd, CAN ED2 CUP1;1)   vs   (history, CAN ED2 CUP1;1)
/// must be observationally equivalent under the probe battery: after wiping the screen
/// (same pen on both sides) and placing the cursor, nothing of the command's legitimate
/// effect is left; any remaining difference is a mode, margin, tab stop, charset, pen or
/// saved-context change. Returns None when the case does not have that shape.
pub fn mode_frame_check(case: &Case, pure: &dyn Fn(&RefFn) -> bool, tally: &mut Tally) -> Option<Verdict> {
    use crate::case::Call;
    use crate::observe::{equivalent, Recipe};
    let n = case.calls.len();
    if n < 2 {
        return None;
    }
    let mut p = crate::refparser::RefParser::new();
    for c in &case.calls[..n - 1] {
        if let Call::FeedStr(s) | Call::Feed(s) = c {
            for ch in s.chars() {
                p.feed(ch);
            }
        }
    }
    if p.state != crate::refparser::St::Ground {
        return None;
    }
    let Call::FeedStr(last) = &case.calls[n - 1] else { return None };
    let (fs, in_domain, st) = crate::walk::functions_of(last);
    if !in_domain || st != crate::refparser::St::Ground || fs.is_empty() || !fs.iter().all(|f| pure(f)) {
        return None;
    }
    let mk = |with_cmd: bool| -> Recipe {
        let mut calls: Vec<Call> = case.calls[..n - 1].to_vec();
        if with_cmd {
            calls.push(case.calls[n - 1].clone());
        }
        calls.push(Call::FeedStr("\x18\x1b[2J\x1b[1;1H".to_string()));
        Recipe { cols: case.cols, rows: case.rows, limit: case.limit, calls }
    };
    tally.steps += 1;
    tally.class("mode_frame_checked");
    if let Err(d) = equivalent(&mk(true), &mk(false), true) {
        return Some(Verdict::fail(
            "mode-frame",
            format!("after {:?} plus a screen wipe and CUP, the terminal still differs from one that never received it (a mode, margin, tab stop, charset, pen or saved context changed): {} (after probes {:?})", fs, d.what, d.after),
        ));
    }
    None
}
