//! Independent reference parser: Paul Williams' DEC-compatible state machine
//! (vt100.net/emu/dec_ansi_parser), transcribed from the published table, plus the four
//! deviations listed in property C03.
use crate::reffn::*;

#[derive(Debug, Clone, Copy, PartialEq, Eq, Hash)]
pub enum St { Ground, Escape, EscInt, CsiEntry, CsiParam, CsiInt, CsiIgnore, DcsEntry, DcsParam, DcsInt, DcsPass, DcsIgnore, Osc, Sos }

pub const ALL_STATES: [St; 14] = [St::Ground, St::Escape, St::EscInt, St::CsiEntry, St::CsiParam, St::CsiInt, St::CsiIgnore, St::DcsEntry, St::DcsParam, St::DcsInt, St::DcsPass, St::DcsIgnore, St::Osc, St::Sos];

pub fn st_of(s: avt::parser::State) -> St {
    use avt::parser::State::*;
    match s { Ground => St::Ground, Escape => St::Escape, EscapeIntermediate => St::EscInt, CsiEntry => St::CsiEntry, CsiParam => St::CsiParam,
        CsiIntermediate => St::CsiInt, CsiIgnore => St::CsiIgnore, DcsEntry => St::DcsEntry, DcsParam => St::DcsParam, DcsIntermediate => St::DcsInt,
        DcsPassthrough => St::DcsPass, DcsIgnore => St::DcsIgnore, OscString => St::Osc, SosPmApcString => St::Sos }
}

/// character classes of the Williams table
#[derive(Debug, Clone, Copy, PartialEq, Eq)]
enum Cl { C0, Can, Esc, Inter, Digit, Colon, Semi, Priv, Final, Del, C1(u8) }

fn class(c: char) -> Cl {
    let v = c as u32;
    match v {
        0x18 | 0x1a => Cl::Can, 0x1b => Cl::Esc, 0x00..=0x1f => Cl::C0, 0x20..=0x2f => Cl::Inter, 0x30..=0x39 => Cl::Digit,
        0x3a => Cl::Colon, 0x3b => Cl::Semi, 0x3c..=0x3f => Cl::Priv, 0x40..=0x7e => Cl::Final, 0x7f => Cl::Del,
        0x80..=0x9f => Cl::C1(v as u8),
        _ => Cl::Final, // deviation: >= U+00A0 acts like an ordinary final-class printable
    }
}

#[derive(Debug, Clone, PartialEq, Eq)]
pub enum Act { Ignore, Print, Execute, Collect, Param, EscDispatch, CsiDispatch, Put, OscPut, Enter }

#[derive(Debug, Clone)]
pub struct RefParser {
    pub state: St,
    pub params: Vec<Vec<u32>>,
    pub collected: Vec<char>,
    /// set by the last dispatch: it was out of domain for one reason only, more than one
    /// collected character (private marker and/or intermediates)
    pub only_multi_collect: bool,
}

#[derive(Debug, Clone, PartialEq)]
pub struct Outcome { pub act: Act, pub func: Option<RefFn>, pub in_domain: bool }

impl Default for RefParser { fn default() -> Self { Self::new() } }

impl RefParser {
    pub fn new() -> Self { RefParser { state: St::Ground, params: vec![vec![0]], collected: vec![], only_multi_collect: false } }
    fn clear(&mut self) { self.params = vec![vec![0]]; self.collected.clear(); }

    pub fn feed(&mut self, c: char) -> Outcome {
        use St::*;
        let cl = class(c);
        let none = |act: Act| Outcome { act, func: None, in_domain: true };
        // "anywhere" transitions
        match cl {
            Cl::Can => { self.state = Ground; return none(Act::Execute); }
            Cl::Esc => { self.state = Escape; self.clear(); return none(Act::Enter); }
            Cl::C1(b) => {
                return match b {
                    0x90 => { self.state = DcsEntry; self.clear(); none(Act::Enter) }
                    0x9b => { self.state = CsiEntry; self.clear(); none(Act::Enter) }
                    0x9c => { self.state = Ground; none(Act::Ignore) }
                    0x9d => { self.state = Osc; none(Act::Enter) }
                    0x98 | 0x9e | 0x9f => { self.state = Sos; none(Act::Enter) }
                    _ => { self.state = Ground; Outcome { act: Act::Execute, func: execute(c), in_domain: true } }
                };
            }
            _ => {}
        }
        match (self.state, cl) {
            (Ground, Cl::C0) => Outcome { act: Act::Execute, func: execute(c), in_domain: true },
            (Ground, _) => Outcome { act: Act::Print, func: Some(RefFn::Print(c)), in_domain: true }, // 0x20..=0x7f and >= 0xa0

            (Escape, Cl::C0) => Outcome { act: Act::Execute, func: execute(c), in_domain: true },
            (Escape, Cl::Del) => none(Act::Ignore),
            (Escape, Cl::Inter) => { self.collected.push(c); self.state = EscInt; none(Act::Collect) }
            (Escape, Cl::Final) if c == 'P' => { self.state = DcsEntry; self.clear(); none(Act::Enter) }
            (Escape, Cl::Final) if c == '[' => { self.state = CsiEntry; self.clear(); none(Act::Enter) }
            (Escape, Cl::Final) if c == ']' => { self.state = Osc; none(Act::Enter) }
            (Escape, Cl::Final) if c == 'X' || c == '^' || c == '_' => { self.state = Sos; none(Act::Enter) }
            (Escape, _) => { self.state = Ground; self.esc_dispatch(c) } // 0x30..=0x7e rest, >= 0xa0

            (EscInt, Cl::C0) => Outcome { act: Act::Execute, func: execute(c), in_domain: true },
            (EscInt, Cl::Inter) => { self.collected.push(c); none(Act::Collect) }
            (EscInt, Cl::Del) => none(Act::Ignore),
            (EscInt, _) => { self.state = Ground; self.esc_dispatch(c) }

            (CsiEntry, Cl::C0) | (CsiParam, Cl::C0) | (CsiInt, Cl::C0) | (CsiIgnore, Cl::C0) => Outcome { act: Act::Execute, func: execute(c), in_domain: true },
            (CsiEntry, Cl::Del) | (CsiParam, Cl::Del) | (CsiInt, Cl::Del) | (CsiIgnore, Cl::Del) => none(Act::Ignore),
            (CsiEntry, Cl::Inter) | (CsiParam, Cl::Inter) => { self.collected.push(c); self.state = CsiInt; none(Act::Collect) }
            (CsiEntry, Cl::Colon) => { self.state = CsiIgnore; none(Act::Ignore) }
            (CsiEntry, Cl::Digit) | (CsiEntry, Cl::Semi) => { self.state = CsiParam; self.param(c); none(Act::Param) }
            (CsiEntry, Cl::Priv) => { self.collected.push(c); self.state = CsiParam; none(Act::Collect) }
            (CsiEntry, Cl::Final) | (CsiParam, Cl::Final) | (CsiInt, Cl::Final) => { self.state = Ground; self.csi_dispatch(c) }
            (CsiParam, Cl::Digit) | (CsiParam, Cl::Semi) | (CsiParam, Cl::Colon) => { self.param(c); none(Act::Param) } // deviation: ':' = sub-parameter
            (CsiParam, Cl::Priv) => { self.state = CsiIgnore; none(Act::Ignore) }
            (CsiInt, Cl::Inter) => { self.collected.push(c); none(Act::Collect) }
            (CsiInt, Cl::Digit) | (CsiInt, Cl::Colon) | (CsiInt, Cl::Semi) | (CsiInt, Cl::Priv) => { self.state = CsiIgnore; none(Act::Ignore) }
            (CsiIgnore, Cl::Final) => { self.state = Ground; none(Act::Ignore) }
            (CsiIgnore, _) => none(Act::Ignore),

            (DcsEntry, Cl::C0) | (DcsParam, Cl::C0) | (DcsInt, Cl::C0) | (DcsIgnore, Cl::C0) => none(Act::Ignore),
            (DcsEntry, Cl::Del) | (DcsParam, Cl::Del) | (DcsInt, Cl::Del) | (DcsPass, Cl::Del) => none(Act::Ignore),
            (DcsEntry, Cl::Inter) | (DcsParam, Cl::Inter) => { self.collected.push(c); self.state = DcsInt; none(Act::Collect) }
            (DcsEntry, Cl::Colon) => { self.state = DcsIgnore; none(Act::Ignore) }
            (DcsEntry, Cl::Digit) | (DcsEntry, Cl::Semi) => { self.state = DcsParam; self.param(c); none(Act::Param) }
            (DcsEntry, Cl::Priv) => { self.collected.push(c); self.state = DcsParam; none(Act::Collect) }
            (DcsEntry, Cl::Final) | (DcsParam, Cl::Final) | (DcsInt, Cl::Final) => { self.state = DcsPass; none(Act::Enter) }
            (DcsParam, Cl::Digit) | (DcsParam, Cl::Semi) => { self.param(c); none(Act::Param) }
            (DcsParam, Cl::Colon) | (DcsParam, Cl::Priv) => { self.state = DcsIgnore; none(Act::Ignore) }
            (DcsInt, Cl::Inter) => { self.collected.push(c); none(Act::Collect) }
            (DcsInt, Cl::Digit) | (DcsInt, Cl::Colon) | (DcsInt, Cl::Semi) | (DcsInt, Cl::Priv) => { self.state = DcsIgnore; none(Act::Ignore) }
            (DcsPass, _) => none(Act::Put),
            (DcsIgnore, _) => none(Act::Ignore),

            (Osc, Cl::C0) if c == '\u{07}' => { self.state = Ground; none(Act::Ignore) } // deviation: BEL ends OSC
            (Osc, Cl::C0) => none(Act::Ignore),
            (Osc, _) => none(Act::OscPut),
            (Sos, _) => none(Act::Ignore),

            (_, Cl::Can) | (_, Cl::Esc) | (_, Cl::C1(_)) => unreachable!(),
        }
    }

    fn param(&mut self, c: char) {
        match c {
            ';' => self.params.push(vec![0]),
            ':' => self.params.last_mut().unwrap().push(0),
            d => { let p = self.params.last_mut().unwrap().last_mut().unwrap(); *p = p.saturating_mul(10).saturating_add(d as u32 - 0x30); }
        }
    }

    fn esc_dispatch(&mut self, c: char) -> Outcome {
        let in_domain = self.collected.len() <= 1;
        self.only_multi_collect = !in_domain;
        let func = match (self.collected.last().copied(), c) {
            (None, c) if ('@'..='_').contains(&c) => execute(char::from_u32(c as u32 + 0x40).unwrap()), // ESC Fe == C1
            (None, '7') => Some(RefFn::Decsc),
            (None, '8') => Some(RefFn::Decrc),
            (None, 'c') => Some(RefFn::Ris),
            (Some('#'), '8') => Some(RefFn::Decaln),
            (Some('('), f) => Some(RefFn::Gzd4(f == '0')),
            (Some(')'), f) => Some(RefFn::G1d4(f == '0')),
            _ => None,
        };
        Outcome { act: Act::EscDispatch, func, in_domain }
    }

    fn p(&self, i: usize) -> u16 { self.params.get(i).map(|p| p[0].min(65535) as u16).unwrap_or(0) }

    fn csi_dispatch(&mut self, c: char) -> Outcome {
        use RefFn::*;
        let multi = self.collected.len() > 1;
        let mut in_domain = self.params.len() <= 32
            && self.params.iter().all(|p| p.len() <= 6 && p.iter().all(|v| *v <= 65535));
        let has_colon = self.params.iter().any(|p| p.len() > 1);
        let func = match (self.collected.last().copied(), c) {
            (None, 'm') => { let (items, ok) = sgr(&self.params); in_domain &= ok; Some(Sgr(items)) }
            (mk, f) => {
                if has_colon { in_domain = false; }
                match (mk, f) {
                    (None, '@') => Some(Ich(self.p(0))), (None, 'A') => Some(Cuu(self.p(0))), (None, 'B') => Some(Cud(self.p(0))),
                    (None, 'C') | (None, 'a') => Some(Cuf(self.p(0))), (None, 'D') => Some(Cub(self.p(0))), (None, 'E') => Some(Cnl(self.p(0))),
                    (None, 'F') => Some(Cpl(self.p(0))), (None, 'G') | (None, '`') => Some(Cha(self.p(0))),
                    (None, 'H') | (None, 'f') => Some(Cup(self.p(0), self.p(1))), (None, 'I') => Some(Cht(self.p(0))),
                    (None, 'J') => match self.p(0) { v @ 0..=3 => Some(Ed(v as u8)), _ => None },
                    (None, 'K') => match self.p(0) { v @ 0..=2 => Some(El(v as u8)), _ => None },
                    (None, 'L') => Some(Il(self.p(0))), (None, 'M') => Some(Dl(self.p(0))), (None, 'P') => Some(Dch(self.p(0))),
                    (None, 'S') => Some(Su(self.p(0))), (None, 'T') => Some(Sd(self.p(0))),
                    (None, 'W') => match self.p(0) { v @ (0 | 2 | 5) => Some(Ctc(v as u8)), _ => None },
                    (None, 'X') => Some(Ech(self.p(0))), (None, 'Z') => Some(Cbt(self.p(0))), (None, 'b') => Some(Rep(self.p(0))),
                    (None, 'd') => Some(Vpa(self.p(0))), (None, 'e') => Some(Vpr(self.p(0))),
                    (None, 'g') => match self.p(0) { v @ (0 | 3) => Some(Tbc(v as u8)), _ => None },
                    (None, 'h') => Some(Sm(self.modes(&[4, 20]))), (None, 'l') => Some(Rm(self.modes(&[4, 20]))),
                    (None, 'r') => Some(Decstbm(self.p(0), self.p(1))), (None, 's') => Some(Scosc), (None, 'u') => Some(Scorc),
                    (None, 't') => if self.p(0) == 8 { Some(Xtwinops(self.p(2), self.p(1))) } else { None },
                    (Some('!'), 'p') => Some(Decstr),
                    (Some('?'), 'h') => Some(Decset(self.dec_modes())), (Some('?'), 'l') => Some(Decrst(self.dec_modes())),
                    _ => None,
                }
            }
        };
        self.only_multi_collect = multi && in_domain;
        let in_domain = in_domain && !multi;
        Outcome { act: Act::CsiDispatch, func, in_domain }
    }

    fn modes(&self, known: &[u16]) -> Vec<u16> { self.params.iter().take(32).map(|p| p[0].min(65535) as u16).filter(|m| known.contains(m)).collect() }
    fn dec_modes(&self) -> Vec<u16> {
        self.modes(&[1, 6, 7, 25, 47, 1047, 1048, 1049]).into_iter().map(|m| if m == 47 { 1047 } else { m }).collect()
    }
}

pub fn execute(c: char) -> Option<RefFn> {
    match c as u32 {
        0x08 => Some(RefFn::Bs), 0x09 => Some(RefFn::Ht), 0x0a | 0x0b | 0x0c => Some(RefFn::Lf), 0x0d => Some(RefFn::Cr),
        0x0e => Some(RefFn::So), 0x0f => Some(RefFn::Si), 0x84 => Some(RefFn::Lf), 0x85 => Some(RefFn::Nel), 0x88 => Some(RefFn::Hts),
        0x8d => Some(RefFn::Ri), _ => None,
    }
}

/// SGR decoding per property C08; second component false = shape outside the stated forms
pub fn sgr(params: &[Vec<u32>]) -> (Vec<SgrItem>, bool) {
    use SgrItem::*;
    let mut out = vec![]; let mut ok = true; let mut i = 0;
    let b = |v: u32, ok: &mut bool| -> u8 { if v > 255 { *ok = false; } v as u8 };
    while i < params.len() {
        let p = &params[i];
        if p.len() == 1 {
            let v = p[0];
            match v {
                0 => out.push(Reset), 1 => out.push(Bold), 2 => out.push(Faint), 3 => out.push(Italic), 4 => out.push(Underline),
                5 => out.push(Blink), 7 => out.push(Inverse), 9 => out.push(Strike), 21 | 22 => out.push(NoIntensity),
                23 => out.push(NoItalic), 24 => out.push(NoUnderline), 25 => out.push(NoBlink), 27 => out.push(NoInverse), 29 => out.push(NoStrike),
                30..=37 => out.push(Fg(RefColor::Idx((v - 30) as u8))), 39 => out.push(NoFg),
                40..=47 => out.push(Bg(RefColor::Idx((v - 40) as u8))), 49 => out.push(NoBg),
                90..=97 => out.push(Fg(RefColor::Idx((v - 90 + 8) as u8))), 100..=107 => out.push(Bg(RefColor::Idx((v - 100 + 8) as u8))),
                38 | 48 => {
                    let single = |k: usize| params.get(i + k).filter(|q| q.len() == 1).map(|q| q[0]);
                    let col = match single(1) {
                        Some(5) => match single(2) { Some(n) => { i += 2; Some(RefColor::Idx(b(n, &mut ok))) } None => { ok = false; None } },
                        Some(2) => match (single(2), single(3), single(4)) {
                            (Some(r), Some(g), Some(bl)) => { i += 4; Some(RefColor::Rgb(b(r, &mut ok), b(g, &mut ok), b(bl, &mut ok))) }
                            _ => { ok = false; None } },
                        _ => { ok = false; None }
                    };
                    if let Some(c) = col { out.push(if v == 38 { Fg(c) } else { Bg(c) }); }
                }
                _ => {}
            }
        } else {
            let col = match p.as_slice() {
                [38 | 48, 5, n] => Some(RefColor::Idx(b(*n, &mut ok))),
                [38 | 48, 2, r, g, bl] | [38 | 48, 2, _, r, g, bl] => Some(RefColor::Rgb(b(*r, &mut ok), b(*g, &mut ok), b(*bl, &mut ok))),
                _ => { ok = false; None }
            };
            if let Some(c) = col { out.push(if p[0] == 38 { Fg(c) } else { Bg(c) }); }
        }
        i += 1;
    }
    (out, ok)
}
