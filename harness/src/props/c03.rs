//! C03 — parser follows the DEC/ANSI state machine; dispatch is exact and memoryless.

use super::PropRun;
use crate::case::{Call, Case, Verdict};
use crate::engine::{par_fold, random_part, run_part, shrink_failure, Env, EvidenceMeta, Failure, PartReport, Tally, Tier};
use crate::gen::{self, G};
use crate::reffn::{from_avt, RefFn};
use crate::refparser::{st_of, Act, RefParser, St};
use crate::src::Src;
use avt::parser::Parser;

/// Feed the characters to avt's parser and to the reference; first disagreement.
pub fn diff(chars: &[char]) -> Option<(String, String)> {
    let mut p = Parser::new();
    let mut r = RefParser::new();
    for (i, &c) in chars.iter().enumerate() {
        let got = p.feed(c).map(|f| from_avt(&f));
        let exp = r.feed(c);
        let st_ok = st_of(p.state) == r.state;
        let fn_ok = !exp.in_domain || got == exp.func;
        if !st_ok || !fn_ok {
            let kind = if !st_ok { "STATE" } else { "FUNC" };
            return Some((
                format!("{}-{:?}", kind, exp.act),
                format!(
                    "at character {} ({:?} U+{:04X}) of {:?}: avt state {:?} / function {:?}; reference state {:?} / action {:?} / function {:?}",
                    i,
                    c,
                    c as u32,
                    chars.iter().collect::<String>(),
                    p.state,
                    got,
                    r.state,
                    exp.act,
                    exp.func
                ),
            ));
        }
    }
    None
}

fn whole(case: &Case) -> Vec<char> {
    let mut v = vec![];
    for c in &case.calls {
        if let Call::FeedStr(s) | Call::Feed(s) = c {
            v.extend(s.chars());
        }
    }
    v
}

fn judge_stream(case: &Case, tally: &mut Tally) -> Verdict {
    let chars = whole(case);
    tally.steps += chars.len() as u64;
    // non-trivial: >= 3 complete sequences of >= 2 kinds
    let mut r = RefParser::new();
    let mut kinds = std::collections::BTreeSet::new();
    let mut n = 0;
    for c in &chars {
        let o = r.feed(*c);
        match o.act {
            Act::CsiDispatch | Act::EscDispatch => {
                n += 1;
                kinds.insert(format!("{:?}", o.act));
            }
            Act::Execute => {
                kinds.insert("Execute".into());
            }
            _ => {}
        }
        if !o.in_domain {
            tally.class("out_of_domain_shape");
        }
    }
    if (n >= 3 && kinds.len() >= 2) || (n >= 1 && case.nums.first() == Some(&1)) {
        tally.nontrivial = true;
    }
    match diff(&chars) {
        None => Verdict::Pass,
        Some((sig, msg)) => Verdict::fail(sig, msg),
    }
}

fn functions(chars: &[char]) -> (Vec<RefFn>, avt::parser::State) {
    let mut p = Parser::new();
    let v = chars.iter().filter_map(|c| p.feed(*c).map(|f| from_avt(&f))).collect();
    (v, p.state)
}

/// memorylessness: the case's calls are the sequences A, B, (C): functions(A·B·C) must be
/// functions(A) ++ functions(B) ++ functions(C) when every piece ends in ground state
fn judge_memoryless(case: &Case, tally: &mut Tally) -> Verdict {
    let pieces: Vec<Vec<char>> = case.calls.iter().filter_map(|c| if let Call::FeedStr(s) = c { Some(s.chars().collect()) } else { None }).collect();
    let mut want: Vec<RefFn> = vec![];
    for (i, p) in pieces.iter().enumerate() {
        let (f, st) = functions(p);
        if i + 1 < pieces.len() && st != avt::parser::State::Ground {
            return Verdict::Invalid("piece does not end in ground state".into());
        }
        // the reference must agree that the piece ends in ground (guards against a parser
        // that is wrong about where sequences end)
        let mut r = RefParser::new();
        for c in p {
            r.feed(*c);
        }
        if i + 1 < pieces.len() && r.state != St::Ground {
            return Verdict::Invalid("piece does not end in ground state (reference)".into());
        }
        want.extend(f);
    }
    let all: Vec<char> = pieces.concat();
    let (got, _) = functions(&all);
    tally.steps += 1;
    if pieces.len() >= 2 {
        tally.nontrivial = true;
    }
    if got != want {
        let mut at = 0;
        while at < got.len() && at < want.len() && got[at] == want[at] {
            at += 1;
        }
        return Verdict::fail(
            "memory",
            format!("functions of the concatenation differ from the concatenation of the functions at index {}: {:?} vs {:?}; pieces {:?}", at, got.get(at), want.get(at), pieces.iter().map(|p| p.iter().collect::<String>()).collect::<Vec<_>>()),
        );
    }
    Verdict::Pass
}

pub fn judge(part: &str, case: &Case, tally: &mut Tally) -> Verdict {
    if part.starts_with("memoryless") {
        judge_memoryless(case, tally)
    } else if part.starts_with("escfe") {
        judge_escfe(case, tally)
    } else {
        judge_stream(case, tally)
    }
}

pub fn prefixes() -> Vec<(&'static str, St)> {
    vec![
        ("", St::Ground),
        ("\x1b[1;2;3;4:5:6;7;8;9;10;11;12;13;14;15;16;17;18;19;20;21;22;23;24;25;26;27;28;29;30;31;32m", St::Ground),
        ("\x1b[?5$p", St::Ground),
        ("\x1b", St::Escape),
        ("\x1b[5;6\x1b", St::Escape),
        ("\x1b(", St::EscInt),
        ("\x1b#", St::EscInt),
        ("\x1b )", St::EscInt),
        ("\x1b[", St::CsiEntry),
        ("\u{9b}", St::CsiEntry),
        ("\x1b[9;9;9H\x1b[", St::CsiEntry),
        ("\x1b[1", St::CsiParam),
        ("\x1b[?7", St::CsiParam),
        ("\x1b[1;2", St::CsiParam),
        ("\x1b[38:5", St::CsiParam),
        ("\u{9b};", St::CsiParam),
        ("\x1b[>", St::CsiParam),
        ("\x1b[!", St::CsiInt),
        ("\x1b[1 ", St::CsiInt),
        ("\x1b[?1$", St::CsiInt),
        ("\x1b[:", St::CsiIgnore),
        ("\x1b[1?", St::CsiIgnore),
        ("\x1b[ 1", St::CsiIgnore),
        ("\x1bP", St::DcsEntry),
        ("\u{90}", St::DcsEntry),
        ("\x1bP1;2", St::DcsParam),
        ("\x1bP?", St::DcsParam),
        ("\x1bP$", St::DcsInt),
        ("\x1bP1$", St::DcsInt),
        ("\x1bPq", St::DcsPass),
        ("\x1bP1$qabc", St::DcsPass),
        ("\x1bP:", St::DcsIgnore),
        ("\x1bP1:", St::DcsIgnore),
        ("\x1bP$1", St::DcsIgnore),
        ("\x1b]", St::Osc),
        ("\u{9d}0;abc", St::Osc),
        ("\x1bX", St::Sos),
        ("\x1b^", St::Sos),
        ("\x1b_", St::Sos),
        ("\u{98}", St::Sos),
        ("\u{9e}x", St::Sos),
    ]
}

const SUFFIXES: [&str; 5] = ["7H", ";3m", "\u{9c}x", "\x07y", "0"];

/// Layer 1: (background prefix) x (every Unicode scalar value) x (observer suffixes)
fn layer1(env: &Env) -> PartReport {
    let pre = prefixes();
    for (p, st) in &pre {
        let mut r = RefParser::new();
        for c in p.chars() {
            r.feed(c);
        }
        assert_eq!(r.state, *st, "harness self-check: prefix {:?} must reach {:?}", p, st);
    }
    let pre_chars: Vec<Vec<char>> = pre.iter().map(|(p, _)| p.chars().collect()).collect();
    // thorough: all suffixes for every scalar; quick: all suffixes below U+0100 (where the
    // table has structure), one above, plus every 97th scalar with all suffixes
    let thorough = env.tier == Tier::Thorough;
    const SCALARS: usize = 0x110000;
    let total = pre.len() * SCALARS;
    #[derive(Default)]
    struct Acc {
        evals: u64,
        nontrivial: u64,
        fail: Option<(usize, String, String, String)>,
        samples: Vec<String>,
    }
    let accs = par_fold(
        env.threads,
        total,
        &Acc::default,
        &|i, acc: &mut Acc| {
            let (pi, v) = (i / SCALARS, (i % SCALARS) as u32);
            let Some(c) = char::from_u32(v) else { return };
            let nsuf = if v < 0x100 || thorough || v % 97 == 0 { SUFFIXES.len() } else { 1 };
            for suf in &SUFFIXES[..nsuf] {
                let mut s = pre_chars[pi].clone();
                s.push(c);
                s.extend(suf.chars());
                acc.evals += 1;
                // non-trivial: the reference action for `c` is not "ignore"
                let mut r = RefParser::new();
                for ch in &pre_chars[pi] {
                    r.feed(*ch);
                }
                if r.feed(c).act != Act::Ignore {
                    acc.nontrivial += 1;
                }
                if acc.samples.len() < 2 && v % 4099 == 7 {
                    acc.samples.push(format!("{:?}", s.iter().collect::<String>()));
                }
                if let Some((sig, msg)) = diff(&s) {
                    if acc.fail.as_ref().map(|f| i < f.0).unwrap_or(true) {
                        acc.fail = Some((i, s.iter().collect(), sig, msg));
                    }
                }
            }
        },
    );
    let mut rep = PartReport { name: "table-all-scalars".into(), exhaustive: true, ..Default::default() };
    rep.bounds = format!(
        "{} background prefixes covering all 14 states x all 1,112,064 Unicode scalar values x observer suffixes ({})",
        pre.len(),
        if thorough { "all 5 for every scalar" } else { "all 5 below U+0100 and for every 97th scalar, 1 otherwise" }
    );
    let mut fail: Option<(usize, String, String, String)> = None;
    for a in accs {
        rep.evaluations += a.evals;
        rep.steps += a.evals;
        rep.nontrivial_counted += a.nontrivial;
        rep.samples.extend(a.samples);
        if let Some(f) = a.fail {
            if fail.as_ref().map(|g| f.0 < g.0).unwrap_or(true) {
                fail = Some(f);
            }
        }
    }
    rep.samples.truncate(4);
    if let Some((i, s, sig, msg)) = fail {
        let f = Failure { part: rep.name.clone(), index: i, case: Case::new(1, 1, None).feed(s), sig, msg };
        let j = |c: &Case, t: &mut Tally| judge_stream(c, t);
        rep.failure = Some(shrink_failure(f, &j));
    }
    rep
}

/// Layer 2: the dispatch table, enumerated
fn layer2_cases() -> Vec<String> {
    let mut v: Vec<String> = vec![];
    let prefs = ["", "?", "<", "=", ">"];
    let shapes = [
        "", "0", "1", "7", "65535", ";", ";5", "3;4", "3;4;5", "8;7;9", "004", "2", "3", "5", "20", "4;20", "1;6;7;25;47;1047;1048;1049",
        "1;2;3;4;5;6;7;8;9;10;11;12;13;14;15;16;17;18;19;20;21;22;23;24;25;26;27;28;29;30;31;1049", "6;7", "1049;6", "65535;65535", "0;0", ";;", "1;;3",
    ];
    let inters: Vec<String> = (0x20u8..=0x2f).map(|b| (b as char).to_string()).collect();
    for intro in ["\x1b[", "\u{9b}"] {
        for pf in prefs {
            for sh in shapes {
                for it in std::iter::once(String::new()).chain(inters.iter().cloned()) {
                    for f in 0x40u8..=0x7e {
                        v.push(format!("{intro}{pf}{sh}{it}{}q", f as char));
                    }
                }
            }
        }
    }
    for it in std::iter::once(String::new()).chain(inters.iter().cloned()) {
        for f in 0x30u8..=0x7e {
            v.push(format!("\x1b{it}{}Zq", f as char));
        }
    }
    // every C0 and C1 from ground and from inside a CSI parameter
    for c in (0u32..0x20).chain(0x7f..0xa1) {
        let ch = char::from_u32(c).unwrap();
        v.push(format!("a{}b", ch));
        v.push(format!("\x1b[1;{}2Hq", ch));
    }
    for code in 0..=110u32 {
        v.push(format!("\x1b[1;{code};4mx"));
        v.push(format!("\u{9b}{code}mx"));
    }
    for g in [38, 48] {
        for n in 0..=255u32 {
            v.push(format!("\x1b[3;{g};5;{n};9mx"));
            v.push(format!("\x1b[3;{g}:5:{n};9mx"));
        }
        for r in [0u32, 1, 127, 128, 255] {
            for gg in [0u32, 7, 255] {
                for b in [0u32, 200, 255] {
                    v.push(format!("\u{9b}{g};2;{r};{gg};{b};1mx"));
                    v.push(format!("\u{9b}{g}:2:{r}:{gg}:{b};1mx"));
                    v.push(format!("\u{9b}{g}:2::{r}:{gg}:{b};1mx"));
                }
            }
        }
    }
    v
}

/// 7-bit ESC Fe must act exactly like its 8-bit C1 counterpart (functions and state)
fn esc_fe_cases() -> Vec<Case> {
    let mut v = vec![];
    for f in 0x40u8..=0x5f {
        for tail in ["1;2Hq\x07\u{9c}z", "", "x", "?7l", "0;title\x07A", "q#1\x1b\\B"] {
            for pre in ["", "\x1b[1;2", "\x1b]x", "\x1bPq", "\x1b("] {
                v.push(Case::new(1, 1, None).feed(format!("{}\x1b{}{}", pre, f as char, tail)).feed(format!("{}{}{}", pre, char::from_u32(f as u32 + 0x40).unwrap(), tail)));
            }
        }
    }
    v
}

fn judge_escfe(case: &Case, tally: &mut Tally) -> Verdict {
    let strs: Vec<Vec<char>> = case.calls.iter().filter_map(|c| if let Call::FeedStr(s) = c { Some(s.chars().collect()) } else { None }).collect();
    if strs.len() != 2 {
        return Verdict::Invalid("needs two strings".into());
    }
    tally.steps += 1;
    tally.nontrivial = true;
    let (fa, sa) = functions(&strs[0]);
    let (fb, sb) = functions(&strs[1]);
    if fa != fb || sa != sb {
        return Verdict::fail("escfe", format!("7-bit form {:?} gives {:?}/{:?}, 8-bit form {:?} gives {:?}/{:?}", strs[0].iter().collect::<String>(), fa, sa, strs[1].iter().collect::<String>(), fb, sb));
    }
    Verdict::Pass
}

/// basis of complete sequences (each ends in ground state) chosen to leave as much stale
/// material behind as possible
pub fn basis() -> Vec<String> {
    let mut v: Vec<String> = vec![
        "a", "\n", "\x1b[H", "\x1b[5;6H", "\x1b[;7H", "\x1b[9A", "\x1b[m", "\x1b[1;31m", "\x1b[38;5;200m", "\x1b[38:2::1:2:3m", "\x1b[48:5:99;4m", "\x1b[?1049h", "\x1b[?6;7l", "\x1b[4;20h", "\x1b[2;5r", "\x1b[r",
        "\x1b[1;2;3;4:5:6;7;8;9;10;11;12;13;14;15;16;17;18;19;20;21;22;23;24;25;26;27;28;29;30;31;32m", "\x1b[1;2;3;4;5;6;7;8;9;10;11;12;13;14;15;16;17;18;19;20;21;22;23;24;25;26;27;28;29;30;31;32;33;34H",
        "\x1b[9:8:7:6:5:4:3:2:1m", "\x1b[65535;65535H", "\x1b[!p", "\x1b[?5$p", "\x1b[1 q", "\x1b[>0c", "\x1b[=1;2c", "\x1b(0", "\x1b)B", "\x1b#8", "\x1b $x", "\x1b7", "\x1b8", "\x1bc", "\x1bM", "\x1bD",
        "\x1b[1;2\x18", "\x1b[3;4\x1a", "\x1b[5;6\x1b[7m", "\x1b[8;9\u{9b}1m", "\x1b[?1:2;3 \x18", "\x1b]0;t\x07", "\x1b]0;t\x1b\\", "\u{9d}x\u{9c}", "\x1bP1;2$qxyz\x1b\\", "\x1bP?5:x\u{9c}", "\x1bXsos\x1b\\",
        "\x1b_apc\u{9c}", "\x1b^pm\x18", "\x1b[:1;2m", "\x1b[1?2m", "\x1b[ 1m", "\u{9b}3;4r", "\u{84}", "\u{85}", "\u{88}", "\u{8d}", "\x1b[8;5;6t", "\x1b[3J", "\x1b[2K", "\x1b[5W", "\x1b[3g", "\x1b[7b", "\x1b[s", "\x1b[u",
        "\x1b[1;2;3\n;4H", "\x1b[?25\x08l", "\x1b(\r0", "é", "\u{a0}", "\u{10ffff}", "\x7f", "\x1b[\x7f5C", "\x1b\x7f[C",
    ]
    .into_iter()
    .map(String::from)
    .collect();
    // every implemented CSI final with two parameters and with none
    for f in "@ABCDEFGHIJKLMPSTWXZ`abdefghlmrstu".chars() {
        v.push(format!("\x1b[{}", f));
        v.push(format!("\x1b[2;3{}", f));
        v.push(format!("\x1b[?2;3{}", f));
    }
    // every final byte - implemented or not, also behind `?`, `>` and the intermediates
    // `!` (DECSTR) and SP - with more parameters and sub-parameters than any function
    // reads: whatever the dispatch arm does, it must leave nothing behind for the next
    // sequence
    for f in 0x40u8..=0x7e {
        let f = f as char;
        for (pf, it) in [("", ""), ("?", ""), (">", ""), ("", "!"), ("", " ")] {
            v.push(format!("\x1b[{}2;3:4:5;6;7{}{}", pf, it, f));
        }
    }
    // and every ESC final, plain and behind `#`, `(`
    for f in 0x30u8..=0x7e {
        let f = f as char;
        if f == '[' || f == ']' || f == 'P' || f == 'X' || f == '^' || f == '_' {
            continue;
        }
        v.push(format!("\x1b[2;3;4\x1b{}", f));
        v.push(format!("\x1b[2;3;4\x1b#{}", f));
    }
    v
}

pub fn gen_stream(src: &mut Src, _i: usize) -> Case {
    let mut g = G::new(src.range(1, 20), src.range(1, 10)).with_raw(8);
    g.xtwinops = true;
    g.xtwinops_huge = true;
    g.w[gen::CAT_INERT] = 6;
    g.w[gen::CAT_SGR] = 8;
    let s = gen::input(src, &g, 30);
    Case::new(1, 1, None).feed(s)
}


/// longest prefix of `seq` (in characters), starting in ground, during which the reference
/// parser neither prints, executes nor dispatches: those characters only change parser state
fn silent_prefix_len(seq: &str) -> usize {
    let mut r = RefParser::new();
    let mut n = 0;
    for c in seq.chars() {
        let o = r.feed(c);
        if matches!(o.act, Act::Print | Act::Execute | Act::EscDispatch | Act::CsiDispatch) || r.state == St::Ground {
            break;
        }
        n += 1;
    }
    n
}

fn ends_in_ground(s: &str) -> bool {
    let mut r = RefParser::new();
    for c in s.chars() {
        r.feed(c);
    }
    r.state == St::Ground
}

/// A public call that is not input (resize to another or the same size, dump(), text(),
/// the read accessors) between two pieces of one sequence: the parser state is a function
/// of the characters alone, so moving the already-fed part of the unfinished sequence
/// behind that call must not change anything.
/// case: calls = [FeedStr(pre + seq[..j]), X, FeedStr(seq[j..] + post)], tail = [pre, seq, post], nums = [j]
pub fn gen_calls_mid_sequence(src: &mut Src, _i: usize) -> Case {
    let (cols, rows) = gen::small_size(src);
    let mut g = G::new(cols, rows);
    g.w[gen::CAT_INERT] = 3;
    g.w[gen::CAT_SGR] = 4;
    g.w[gen::CAT_DECMODE] = 4;
    let mut pre = if src.chance(2, 3) { gen::input(src, &g, 3) } else { String::new() };
    if !ends_in_ground(&pre) {
        pre.clear();
    }
    // construction, not rejection: up to 4 draws, the last one is a fixed CSI sequence
    let mut seq = String::new();
    for k in 0..4 {
        seq = if k == 3 { format!("\x1b[{};{}H", src.range(1, rows + 1), src.range(1, cols + 1)) } else { gen::frag_structured(src, &g) };
        if silent_prefix_len(&seq) >= 2 {
            break;
        }
    }
    let sp = silent_prefix_len(&seq).max(1);
    let j = src.range(1, sp);
    let post = gen::input(src, &g, 2);
    let x = match src.below(8) {
        0 => Call::Resize(cols, rows),
        1 => Call::Dump,
        2 => Call::Text,
        3 => Call::Query,
        _ => {
            let (c, r) = gen::resize_target(src, &g);
            Call::Resize(c, r)
        }
    };
    let chars: Vec<char> = seq.chars().collect();
    let j = j.min(chars.len());
    let head: String = chars[..j].iter().collect();
    let rest: String = chars[j..].iter().collect();
    let mut c = Case::new(cols, rows, None).feed(format!("{}{}", pre, head));
    c.calls.push(x);
    c.calls.push(Call::FeedStr(format!("{}{}", rest, post)));
    c.tail = vec![pre, seq, post];
    c.nums = vec![j];
    c
}

pub fn judge_calls_mid_sequence(case: &Case, t: &mut Tally) -> Verdict {
    // shrink-safe: the shape is re-derived from tail/nums and the middle call only
    if case.tail.len() != 3 || case.nums.len() != 1 || case.calls.len() != 3 {
        return Verdict::Pass;
    }
    let (pre, seq, post) = (&case.tail[0], &case.tail[1], &case.tail[2]);
    let j = case.nums[0];
    let x = case.calls[1].clone();
    if matches!(x, Call::FeedStr(_) | Call::Feed(_)) || !ends_in_ground(pre) || j == 0 || j > silent_prefix_len(seq) {
        return Verdict::Pass;
    }
    let chars: Vec<char> = seq.chars().collect();
    let head: String = chars[..j].iter().collect();
    let rest: String = chars[j..].iter().collect();
    t.steps += 1;
    t.nontrivial = true;
    match &x {
        Call::Resize(c, r) if (*c, *r) != (case.cols, case.rows) => t.class("resize_mid_sequence"),
        Call::Resize(..) => t.class("same_size_resize_mid_sequence"),
        _ => t.class("read_only_call_mid_sequence"),
    }
    let a = crate::observe::Recipe { cols: case.cols, rows: case.rows, limit: case.limit, calls: vec![Call::FeedStr(format!("{}{}", pre, head)), x.clone(), Call::FeedStr(format!("{}{}", rest, post))] };
    let b = crate::observe::Recipe { cols: case.cols, rows: case.rows, limit: case.limit, calls: vec![Call::FeedStr(pre.clone()), x.clone(), Call::FeedStr(format!("{}{}", seq, post))] };
    if let Err(d) = crate::observe::equivalent(&a, &b, true) {
        return Verdict::fail("call-mid-sequence", format!("feed_str({:?}); {:?}; feed_str({:?}) differs from feed_str({:?}); {:?}; feed_str({:?}) - a call that is not input changed how the unfinished sequence {:?} is parsed: {} after probes {:?}", format!("{}{}", pre, head), x, format!("{}{}", rest, post), pre, x, format!("{}{}", seq, post), head, d.what, d.after));
    }
    Verdict::Pass
}

/// character-class soup: random walks over the table's character classes
pub fn gen_soup(src: &mut Src, _i: usize) -> Case {
    let n = src.range(1, 60);
    let mut s = String::new();
    for _ in 0..n {
        let c = match src.below(16) {
            0 => '\x1b',
            1 => '[',
            2 => *src.pick(&['\x18', '\x1a', '\x07', '\n', '\x00', '\x1f']),
            3 => (0x20 + src.below(0x10) as u8) as char,
            4 | 5 => (0x30 + src.below(10) as u8) as char,
            6 => ':',
            7 => ';',
            8 => (0x3c + src.below(4) as u8) as char,
            9 | 10 => (0x40 + src.below(0x3f) as u8) as char,
            11 => '\x7f',
            12 => char::from_u32(0x80 + src.below(0x20) as u32).unwrap(),
            13 => *src.pick(&['P', ']', 'X', '^', '_', '\\', 'c', 'm', 'H', 'h', 'l']),
            14 => *src.pick(&['\u{a0}', 'é', '世', '\u{10ffff}', '\u{fffd}']),
            _ => *src.pick(&['\u{9b}', '\u{90}', '\u{9d}', '\u{9c}', '\u{98}']),
        };
        s.push(c);
    }
    Case::new(1, 1, None).feed(s)
}

pub fn run(env: &Env) -> PropRun {
    let js = |c: &Case, t: &mut Tally| judge_stream(c, t);
    let jm = |c: &Case, t: &mut Tally| judge_memoryless(c, t);
    let je = |c: &Case, t: &mut Tally| judge_escfe(c, t);
    let mut parts = vec![];
    parts.push(layer1(env));
    let l2 = layer2_cases();
    parts.push(run_part(env, "dispatch-table", l2.len(), true, "{ESC [, U+009B} x {none,?,<,=,>} x 24 parameter shapes x {none, each intermediate 0x20-0x2F} x every final 0x40-0x7E; ESC x {none, each intermediate} x every final 0x30-0x7E; every C0/C1 from ground and inside CSI; SGR codes 0-110, all 256 indices in ; and : form, RGB lattice in 3 forms, both grounds", &|i| l2.get(i).map(|s| Case::new(1, 1, None).feed(s.clone()).with_nums(vec![1])), &js));
    let ef = esc_fe_cases();
    parts.push(run_part(env, "escfe-equals-c1", ef.len(), true, "every ESC 0x40-0x5F vs its C1 counterpart x 6 tails x 5 preceding states", &|i| ef.get(i).cloned(), &je));
    // strings of every kind at lengths around the sizes a bounded buffer or counter would
    // have: the state must stay the string state until the terminator, however long
    {
        let mut ls: Vec<String> = vec![];
        for (i7, i8) in [("\x1b]", "\u{9d}"), ("\x1bP", "\u{90}"), ("\x1bX", "\u{98}"), ("\x1b^", "\u{9e}"), ("\x1b_", "\u{9f}")] {
            for intro in [i7, i8] {
                for n in [255usize, 256, 257, 1024, 4095, 4096, 4097, 8192, 32768, 65535, 65536, 65537, 100_000] {
                    for (k, unit) in ["a", "0;", "é世", "~\n"].iter().enumerate() {
                        let body: String = unit.chars().cycle().take(n).collect();
                        let term = ["\x1b\\", "\u{9c}", "\x18", "\x1b[5;6H"][k];
                        ls.push(format!("{intro}{body}{term}Zq\x1b[1;2H"));
                    }
                }
            }
        }
        parts.push(run_part(env, "long-strings", ls.len(), true, "5 string kinds x 7/8-bit introducer x 13 payload lengths 255 ... 100 000 x 4 payload classes / terminators, compared character by character with the reference parser", &|i| ls.get(i).map(|s| Case::new(1, 1, None).feed(s.clone()).with_nums(vec![1])), &js));
    }
    // end-to-end leg: Vt must segment a long input exactly like its parser fed one character
    // at a time - string kinds nested through C1 introducers, BEL inside non-OSC strings,
    // text hidden between a BEL and the real terminator
    {
        let mut ev: Vec<String> = vec![];
        for (i7, i8) in [("\x1b]", "\u{9d}"), ("\x1bP", "\u{90}"), ("\x1bX", "\u{98}"), ("\x1b^", "\u{9e}"), ("\x1b_", "\u{9f}")] {
            for intro in [i7, i8] {
                for n in [10usize, 600, 1100, 5000] {
                    for inner in ["\u{98}", "\u{9e}", "\u{9f}", "\u{9d}", "\u{90}", "\x1bX", "\x1b_", "\x1b]", ""] {
                        for term in ["\x1b\\", "\u{9c}", "\x18"] {
                            let a: String = "ab".chars().cycle().take(n).collect();
                            ev.push(format!("S{intro}{a}{inner}{a}\x07hidden{term}shown\r\n"));
                        }
                    }
                }
            }
        }
        let jv = |c: &Case, t: &mut Tally| -> Verdict {
            let Some(Call::FeedStr(s)) = c.calls.first() else { return Verdict::Invalid("no input".into()) };
            t.steps += 1;
            t.nontrivial = true;
            let mut whole = avt::Vt::builder().size(80, 4).build();
            let _ = whole.feed_str(s);
            let mut each = avt::Vt::builder().size(80, 4).build();
            for ch in s.chars() {
                each.feed(ch);
            }
            let (tw, te) = (whole.text(), each.text());
            if tw != te || whole.cursor().col != each.cursor().col || whole.cursor().row != each.cursor().row {
                return Verdict::fail("vt-segmentation", format!("Vt::feed_str of the whole input shows {:?}, the same characters through Vt::feed show {:?}", tw, te));
            }
            // and the reference parser agrees on what is printed
            // (only for inputs that do nothing but print, CR and LF - the shrinker may turn a
            // case into something else)
            let mut r = RefParser::new();
            let mut printed = String::new();
            let mut only_text = true;
            for ch in s.chars() {
                match r.feed(ch).func {
                    Some(RefFn::Print(p)) => printed.push(p),
                    Some(RefFn::Cr) | Some(RefFn::Lf) | None => {}
                    Some(_) => only_text = false,
                }
            }
            let shown: String = te.join("");
            if only_text && printed.chars().count() < 80 && shown != printed {
                return Verdict::fail("vt-printed", format!("the screen shows {:?}, the reference parser prints {:?}", shown, printed));
            }
            Verdict::Pass
        };
        parts.push(run_part(env, "long-strings-vt", ev.len(), true, "5 string kinds x 7/8-bit introducer x 4 lengths (10 ... 5000 on each side) x 9 nested introducers / none x 3 terminators, with BEL and text before the terminator: Vt::feed_str vs Vt::feed vs the reference parser's printed characters", &|i| ev.get(i).map(|s| Case::new(80, 4, None).feed(s.clone())), &jv));
    }
    let b = basis();
    let nb = b.len();
    parts.push(run_part(env, "memoryless-pairs", nb * nb, true, &format!("all ordered pairs of a {}-sequence basis (stale parameters, sub-parameters, intermediates, aborted and string sequences)", nb), &|i| Some(Case::new(1, 1, None).feed(b[i / nb].clone()).feed(b[i % nb].clone())), &jm));
    let ntr = env.tier.scale(150_000, 20);
    let bb = b.clone();
    parts.push(random_part(env, "memoryless-triples", ntr, &move |src: &mut Src, _| Case::new(1, 1, None).feed(src.pick(&bb).clone()).feed(src.pick(&bb).clone()).feed(src.pick(&bb).clone()), &jm));
    parts.push(random_part(env, "random-streams", env.tier.scale(150_000, 30), &gen_stream, &js));
    parts.push(random_part(env, "class-soup", env.tier.scale(300_000, 30), &gen_soup, &js));
    let jc = |c: &Case, t: &mut Tally| judge_calls_mid_sequence(c, t);
    parts.push(random_part(env, "calls-mid-sequence", env.tier.scale(20_000, 20), &gen_calls_mid_sequence, &jc));
    PropRun {
        parts,
        meta: EvidenceMeta {
            rule: "avt::parser::Parser and an independent table-driven reference (transcribed from the vt100.net diagram + the four stated deviations) are fed the same characters; after every character the state must agree and, for shapes inside the specified domain (values <= 65535, <= 32 parameters, <= 1 collected character, ':' only in SGR colour forms), the returned function with its parameters must agree; observer suffixes expose what a character did to the hidden parameter/intermediate store. Memorylessness: functions(A·B·C) == functions(A)++functions(B)++functions(C). Non-trivial (table): the reference action for the scalar is not 'ignore'; (streams): >= 3 dispatches of >= 2 kinds.".into(),
            assumptions: vec!["the reference parser is the oracle; it was written from the published table, not from parser.rs".into(), "Vt is known to use this parser unchanged because C04-C08/C18/C20 derive all their expectations from the reference parser's output and compare at Vt level".into()],
            not_compared: vec!["function produced by out-of-domain shapes (state is still compared)".into(), "ESC ( x / ESC ) x with a final other than 0 designate ASCII (pinned)".into()],
        },
        extra: serde_json::json!({}),
    }
}
