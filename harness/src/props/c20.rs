//! C20 — control strings and unimplemented sequences are inert.

use super::PropRun;
use crate::case::{Call, Case, Verdict};
use crate::engine::{random_part, run_part, Env, EvidenceMeta, Tally};
use crate::gen::{self, G};
use crate::observe::{all_lines, equivalent, visible, Recipe};
use crate::refparser::{Act, RefParser, St};
use crate::src::Src;
use crate::walk::ScreenTracker;

/// An item is inert (in the property's domain) iff, started in ground state, the
/// reference parser dispatches no function and prints nothing for any of its characters,
/// every dispatch in it is inside the specified domain, and it ends in ground state.
fn inert_item(item: &str) -> Result<bool, String> {
    let mut r = RefParser::new();
    let mut leak_visible = false;
    let mut in_string = false;
    for ch in item.chars() {
        let before = r.state;
        let o = r.feed(ch);
        if !o.in_domain {
            // more than one collected character (marker + intermediate, several intermediates)
            // is unimplemented under every reading as long as the last collected character
            // and the final do not spell an implemented function (DECSTR `! p`, `# 8`, `( x`)
            // Likewise a parameter list the reference calls out of domain (more than 6
            // sub-parameters, more than 32 parameters, values above 65535, `:` outside SGR)
            // only makes the *arguments* of a function unspecified: when the final byte,
            // marker and intermediate spell no function at all, the sequence is inert
            // whatever its parameters look like.
            let inert_anyway = o.func.is_none() && matches!(o.act, Act::CsiDispatch | Act::EscDispatch);
            if !((r.only_multi_collect && o.func.is_none()) || inert_anyway) {
                return Err(format!("item {:?} contains a sequence outside the specified domain", item));
            }
        }
        if o.func.is_some() || o.act == Act::Print {
            return Err(format!("item {:?} is not inert: {:?} yields {:?}", item, ch, o.func));
        }
        if matches!(before, St::Osc | St::DcsPass | St::Sos | St::DcsIgnore | St::CsiIgnore | St::CsiParam | St::CsiInt | St::CsiEntry | St::DcsEntry | St::DcsParam | St::DcsInt) {
            in_string = true;
            // would this character be active in ground state?
            let v = ch as u32;
            if (0x20..0x7f).contains(&v) || v >= 0xa0 || matches!(v, 0x08..=0x0d) {
                leak_visible = true;
            }
        }
    }
    if r.state != St::Ground {
        return Err(format!("item {:?} does not end in ground state", item));
    }
    let _ = in_string;
    Ok(leak_visible)
}

pub fn judge(_part: &str, case: &Case, tally: &mut Tally) -> Verdict {
    let calls: Vec<Call> = case.calls.iter().filter(|c| matches!(c, Call::FeedStr(_) | Call::Feed(_) | Call::Resize(..))).cloned().collect();
    let mut tr = ScreenTracker::new();
    for c in &calls {
        if let Call::FeedStr(s) | Call::Feed(s) = c {
            tr.feed_str(s);
        }
    }
    if tr.parser.state != St::Ground {
        return Verdict::Invalid("history must end in ground state".into());
    }
    if case.tail.is_empty() {
        return Verdict::Invalid("no inert item".into());
    }
    if tr.alt == Some(true) {
        tally.class("on_alternate_screen");
    }
    let mut leak = false;
    for item in &case.tail {
        match inert_item(item) {
            Ok(l) => leak |= l,
            Err(e) => return Verdict::Invalid(e),
        }
    }
    if leak {
        tally.nontrivial = true;
    }
    let base = Recipe { cols: case.cols, rows: case.rows, limit: case.limit, calls: calls.clone() };
    let mut vt = base.build();
    let _ = vt.feed_str(""); // priming: a fresh (or just reset) terminal reports every row dirty once
    let mut force_battery = false;
    for item in &case.tail {
        let before_vis = visible(&vt);
        let before_lines = all_lines(&vt);
        let before_dump = vt.dump();
        let (changed, handed) = {
            let ch = vt.feed_str(item);
            (ch.lines.clone(), ch.scrollback.count())
        };
        tally.steps += 1;
        if !changed.is_empty() {
            return Verdict::fail("changed-lines", format!("inert item {:?} reported changed lines {:?}", item, changed));
        }
        if handed != 0 {
            return Verdict::fail("scrollback", format!("inert item {:?} handed out {} scrollback lines", item, handed));
        }
        let after_vis = visible(&vt);
        if after_vis != before_vis {
            let what = if after_vis.screen.cells != before_vis.screen.cells {
                "cells changed (payload leaked to the screen?)"
            } else if (after_vis.screen.col, after_vis.screen.row) != (before_vis.screen.col, before_vis.screen.row) {
                "cursor moved"
            } else {
                "visible state changed"
            };
            return Verdict::fail("visible", format!("inert item {:?}: {}", item, what));
        }
        if all_lines(&vt) != before_lines {
            return Verdict::fail("lines", format!("inert item {:?} changed lines()", item));
        }
        // avt's own parser must be back in ground state. A function object returned for an
        // inert item is not a violation by itself (the statement speaks of effects), but it
        // forces the full probe battery below.
        let mut p = avt::parser::Parser::new();
        let mut returned_function = false;
        for ch in item.chars() {
            if p.feed(ch).is_some() {
                returned_function = true;
            }
        }
        if returned_function {
            tally.class("parser_returned_a_function");
            force_battery = true;
        }
        if p.state != avt::parser::State::Ground {
            return Verdict::fail("parser-state", format!("inert item {:?}: parser left in {:?}", item, p.state));
        }
        if vt.dump() != before_dump {
            tally.class("dump_changed");
            // hidden state (modes, margins, tabs, parser) through behaviour
            let mut with: Vec<Call> = calls.clone();
            with.push(Call::FeedStr(case.tail.concat()));
            let wr = Recipe { cols: case.cols, rows: case.rows, limit: case.limit, calls: with };
            if let Err(d) = equivalent(&base, &wr, true) {
                return Verdict::fail("hidden", format!("inert item {:?} changed hidden state: {} (after probes {:?})", item, d.what, d.after));
            }
        }
    }
    // probe battery on a sample
    if force_battery || case.nums.first().copied().unwrap_or(0) == 1 {
        let mut with: Vec<Call> = calls.clone();
        with.push(Call::FeedStr(case.tail.concat()));
        let wr = Recipe { cols: case.cols, rows: case.rows, limit: case.limit, calls: with };
        tally.class("probe_battery");
        if let Err(d) = equivalent(&base, &wr, true) {
            return Verdict::fail("hidden", format!("inert items {:?} changed hidden state: {} (after probes {:?})", case.tail, d.what, d.after));
        }
    }
    Verdict::Pass
}

pub fn gen_history(src: &mut Src) -> (Case, G) {
    let (cols, rows) = gen::small_size(src);
    let mut g = G::new(cols, rows);
    g.inert = false;
    let mut case = Case::new(cols, rows, gen::limit(src));
    let n = src.range(0, 3);
    let mut hist = String::new();
    for _ in 0..n {
        hist.push_str(&gen::input(src, &g, 6));
    }
    hist.push('\x18'); // make sure the history ends in ground state
    case.calls.push(Call::FeedStr(hist));
    (case, g)
}

pub fn gen_case(src: &mut Src, _i: usize) -> Case {
    let (mut case, g) = gen_history(src);
    let n = src.range(1, 3);
    let mut tail = vec![];
    for _ in 0..n {
        tail.push(gen::inert(src, &g));
    }
    case.tail = tail;
    case.nums = vec![src.chance(1, 2) as usize];
    case
}

/// long payloads (0-200 characters) in every string kind
pub fn gen_long_payload(src: &mut Src, _i: usize) -> Case {
    let (mut case, _g) = gen_history(src);
    let kind = src.below(5);
    let c1 = src.chance(1, 2);
    let intro = match (kind, c1) {
        (0, false) => "\x1b]",
        (0, true) => "\u{9d}",
        (1, false) => "\x1bP",
        (1, true) => "\u{90}",
        (2, false) => "\x1bX",
        (2, true) => "\u{98}",
        (3, false) => "\x1b^",
        (3, true) => "\u{9e}",
        (4, false) => "\x1b_",
        _ => "\u{9f}",
    };
    // mostly short; now and then at and beyond the sizes real payloads reach (clipboard and
    // inline-image bodies) and around every power-of-two buffer size a parser might adopt
    let n = if src.chance(1, 40) { *src.pick(&[255usize, 256, 1023, 1024, 1025, 4095, 4096, 4097, 8192, 16385, 65536, 70000]) } else { src.range(0, 200) };
    let mut pay = String::new();
    for _ in 0..n {
        let c = match src.below(8) {
            0 => {
                let c = *src.pick(&['\x00', '\x01', '\x07', '\x08', '\t', '\n', '\x0b', '\x0c', '\r', '\x0e', '\x0f', '\x10', '\x17', '\x19', '\x1c', '\x1f']);
                if c == '\x07' && kind == 0 {
                    '\n'
                } else {
                    c
                }
            }
            1 => *src.pick(&['é', '世', '\u{a0}', '\u{10ffff}', '😀']),
            2 => *src.pick(&[';', '0', '5', '[', 'm', 'H', '$', '?', ':', '<', ' ', '!']),
            3 => '\u{7f}',
            _ => (0x20 + src.below(0x5f) as u8) as char,
        };
        pay.push(c);
    }
    let term = match (kind, src.below(3)) {
        (0, 0) => "\x07",
        (_, 1) => "\u{9c}",
        _ => "\x1b\\",
    };
    case.tail = vec![format!("{}{}{}", intro, pay, term)];
    case
}

/// exhaustive: every CSI final x {no prefix, <, =, >, ?, each intermediate} x parameter
/// shapes, minus the implemented table; every ESC final x intermediates; every C0/C1
fn enum_items() -> Vec<String> {
    let mut v: Vec<String> = vec![];
    let implemented_plain = "@ABCDEFGHIJKLMPSTWXZ`abdefghlmrstu";
    for intro in ["\x1b[", "\u{9b}"] {
        for params in ["", "1", "0;2", "4;20", "1049"] {
            for f in 0x40u8..=0x7e {
                let fc = f as char;
                if !implemented_plain.contains(fc) {
                    v.push(format!("{intro}{params}{fc}"));
                }
                for mk in ['<', '=', '>'] {
                    v.push(format!("{intro}{mk}{params}{fc}"));
                }
                if fc != 'h' && fc != 'l' {
                    v.push(format!("{intro}?{params}{fc}"));
                }
                for im in 0x20u8..=0x2f {
                    if im as char == '!' && fc == 'p' {
                        continue;
                    }
                    v.push(format!("{intro}{params}{}{fc}", im as char));
                }
            }
        }
    }
    // private marker AND intermediate together (incl. the implemented marker `?` with mode
    // numbers): still an "intermediate" sequence, never a mode change. The DECSTR spelling
    // (last intermediate `!`, final `p`) stays excluded.
    for (mk, paramsets) in [('?', &["", "6", "1049", "25;7", "1;1047"][..]), ('<', &["1"][..]), ('=', &["1"][..]), ('>', &["4;2"][..])] {
        for params in paramsets {
            for im in (0x20u8..=0x2f).map(|b| b as char) {
                for f in 0x40u8..=0x7e {
                    let fc = f as char;
                    if im == '!' && fc == 'p' {
                        continue;
                    }
                    v.push(format!("\x1b[{mk}{params}{im}{fc}"));
                }
            }
        }
    }
    for s in ["\u{9b}?1049 h", "\u{9b}?6$h", "\u{9b}?25'l", "\x1b[?7#l", "\x1b[?1 h", "\x1b[? 1049h", "\x1b[?1049  h", "\x1b[?1049 $h", "\x1b[>1 !q", "\x1b[?47\"h"] {
        v.push(s.into());
    }
    // unimplemented finals / markers / intermediates behind parameter lists of every odd
    // shape: many sub-parameters (empty and not), many parameters, huge values
    for params in ["1:2:3:4:5:6:7", "1::::::", ":::::::::", "1:2:3:4:5:6:7:8:9:10;1:2:3:4:5:6:7", "99999999999", "1;2;3;4;5;6;7;8;9;10;11;12;13;14;15;16;17;18;19;20;21;22;23;24;25;26;27;28;29;30;31;32;33;34", ";;;;;;;;;;;;;;;;;;;;;;;;;;;;;;;;;;;;;;;;"] {
        for tail in ["x", "y", " q", "$p", "!q", "~"] {
            v.push(format!("\x1b[{params}{tail}"));
            v.push(format!("\x1b[>{params}{tail}"));
            v.push(format!("\u{9b}?{params}{tail}"));
            // ... followed by another inert item: nothing may be left behind for it
            v.push(format!("\x1b[{params}{tail}\x1b]0;t\x07\x1b[5y"));
        }
    }
    // selectors without a function on implemented finals
    for s in ["\x1b[4J", "\x1b[3K", "\x1b[1g", "\x1b[2g", "\x1b[1W", "\x1b[3W", "\x1b[4W", "\x1b[9t", "\x1b[7;1;1t"] {
        v.push(s.into());
    }
    for im in (0x20u8..=0x2f).map(|b| b as char) {
        if im == '(' || im == ')' {
            continue;
        }
        for f in 0x30u8..=0x7e {
            if im == '#' && f == b'8' {
                continue;
            }
            v.push(format!("\x1b{}{}", im, f as char));
        }
    }
    for f in 0x30u8..=0x7e {
        let fc = f as char;
        if "78cDEHMPX[]^_".contains(fc) {
            continue;
        }
        v.push(format!("\x1b{}", fc));
    }
    for c in (0u32..0x20).chain(0x80..0xa0) {
        if matches!(c, 0x08..=0x0f | 0x18 | 0x1a | 0x1b | 0x84 | 0x85 | 0x88 | 0x8d | 0x90 | 0x98 | 0x9b | 0x9d | 0x9e | 0x9f) {
            continue;
        }
        v.push(char::from_u32(c).unwrap().to_string());
    }
    // string kind x introducer x terminator x payload class
    let many33 = format!("{}qAB\nC", "1;".repeat(33));
    let many40 = format!("?{}|x\ry", ";".repeat(40));
    let many32 = format!("{}$qz", "7;".repeat(32));
    let payloads = ["", "plain text", "0;title with ; and 123", "\n\r\t\x08\x0c", "héllo 世界 \u{a0}", "[31mX\x0e", "1;2$q#1;2;3", "\u{7f}\u{7f}", "?1049h", "P]X^_", many33.as_str(), many40.as_str(), many32.as_str()];
    for (i7, i8) in [("\x1b]", "\u{9d}"), ("\x1bP", "\u{90}"), ("\x1bX", "\u{98}"), ("\x1b^", "\u{9e}"), ("\x1b_", "\u{9f}")] {
        for intro in [i7, i8] {
            for term in ["\x1b\\", "\u{9c}", "\x07"] {
                if term == "\x07" && i7 != "\x1b]" {
                    continue;
                }
                for p in payloads {
                    v.push(format!("{intro}{p}{term}"));
                }
            }
        }
    }
    v
}

pub fn run(env: &Env) -> PropRun {
    let j = |c: &Case, t: &mut Tally| judge("", c, t);
    let mut parts = vec![];
    let items = enum_items();
    let states = ["", "abc\r\ndef\x1b[2;2H", "\x1b[?6h\x1b[2;3r\x1b[4h\x1b[?7l\x1b[1;31m\x1b(0", "\x1b[?1049hALT\x1b[3g\x1b[?25l"];
    let ni = items.len();
    parts.push(run_part(
        env,
        "enum-items",
        ni * states.len(),
        true,
        "every CSI final 0x40-0x7E x {ESC [, U+009B} x 5 parameter shapes x {unimplemented plain, <, =, >, ? (non h/l), each intermediate except the DECSTR spelling}; every marker (<, =, >, ?) combined with every intermediate and every final (? with mode-number parameter lists); ESC x intermediates x finals outside {#8, (x, )x}; bare ESC finals outside the implemented set; every unassigned C0/C1; 5 string kinds x 7/8-bit introducer x ST/U+009C/BEL x 13 payload classes (incl. headers of 32, 33 and 40 parameters) - each from 4 prior states",
        &|i| {
            let mut c = Case::new(7, 4, None).feed(states[i / ni]);
            c.tail = vec![items[i % ni].clone()];
            c.nums = vec![1]; // probe battery on every enumerated item
            Some(c)
        },
        &j,
    ));
    // two intermediates: the last one collected decides (avt keeps one slot), so every pair
    // whose last intermediate + final spells nothing implemented is inert - in particular
    // `CSI ! / p`, `ESC # / 8`, `ESC ( / 0` (the implemented spelling followed by one more
    // intermediate)
    let mut dbl: Vec<String> = vec![];
    for a in (0x20u8..=0x2f).map(|b| b as char) {
        for b in (0x20u8..=0x2f).map(|b| b as char) {
            for f in 0x40u8..=0x7e {
                let fc = f as char;
                if !(b == '!' && fc == 'p') {
                    dbl.push(format!("\x1b[{a}{b}{fc}"));
                }
            }
            for f in 0x30u8..=0x7e {
                let fc = f as char;
                if !((b == '#' && fc == '8') || b == '(' || b == ')') {
                    dbl.push(format!("\x1b{a}{b}{fc}"));
                }
            }
        }
    }
    let nd = dbl.len();
    let dstates = ["abc\r\ndef\x1b[2;2H\x1b[1;31m", "\x1b[?6h\x1b[2;3r\x1b[4h\x1b[?7l\x1b[3g\x1b[?1h"];
    parts.push(run_part(
        env,
        "enum-double-intermediates",
        nd * dstates.len(),
        true,
        "CSI and ESC with every ordered pair of intermediates 0x20-0x2F and every final (0x40-0x7E / 0x30-0x7E), except pairs whose last intermediate and final spell an implemented function - each from 2 prior states, probe battery on every item",
        &|i| {
            let mut c = Case::new(7, 4, None).feed(dstates[i / nd]);
            c.tail = vec![dbl[i % nd].clone()];
            c.nums = vec![1];
            Some(c)
        },
        &j,
    ));
    // parameter VALUES: every unimplemented (marker | intermediate, final) pair with its first
    // parameter swept over 0..=130 and the mode-number ranges real sequences use (DECSCL
    // 61-65, DECSCUSR, 1000-1061, 2004, 2026 ...), from a state in which a soft or hard reset,
    // a mode change or a cursor move would show. Judged without the probe battery unless
    // dump() changes.
    {
        let mut vals: Vec<u32> = (0..=130).collect();
        vals.extend(1000..=1061);
        vals.extend([255, 256, 2004, 2026, 9001, 65535]);
        let mut heads: Vec<(String, String)> = vec![];
        for f in 0x40u8..=0x7e {
            let fc = f as char;
            for im in (0x20u8..=0x2f).map(|b| b as char) {
                if !(im == '!' && fc == 'p') {
                    heads.push((String::new(), format!("{im}{fc}")));
                }
            }
            for mk in ['<', '=', '>'] {
                heads.push((mk.to_string(), fc.to_string()));
            }
            if fc != 'h' && fc != 'l' {
                heads.push(("?".into(), fc.to_string()));
            }
        }
        let (nh, nv) = (heads.len(), vals.len());
        let st = "ab\r\ncd\x1b[?6h\x1b[2;3r\x1b[4h\x1b[1;31m\x1b(0\x1b[?25l\x1b[?7l\x1b7\x1b[2;2H";
        parts.push(run_part(
            env,
            "enum-parameter-sweep",
            nh * nv,
            true,
            "every unimplemented (intermediate | marker, final) pair x first parameter in 0..=130, 1000..=1061 and a few more, with and without a second parameter, from a state with margins, origin and insert mode, a pen, a charset, a hidden cursor and a saved context",
            &|i| {
                let (pf, tail) = &heads[i / nv];
                let v = vals[i % nv];
                let second = ["", ";0", ";1", ";2"][i % 4];
                let mut c = Case::new(6, 4, None).feed(st);
                c.tail = vec![format!("\x1b[{pf}{v}{second}{tail}")];
                Some(c)
            },
            &j,
        ));
    }
    // finals beyond Latin-1: every code point U+00A0..=U+FFFF as the final of ESC, of ESC with
    // an intermediate and of CSI is an ordinary unimplemented final (a parser that looks at
    // the low byte only would run IND / NEL / HTS / RI, a cursor move, an erase ...)
    {
        let finals: Vec<char> = (0xA0u32..=0xFFFF).filter_map(char::from_u32).collect();
        let nf = finals.len();
        let st = "ab\r\ncd\x1b[?6h\x1b[2;3r\x1b[4h\x1b[1;31m\x1b(0\x1b[?25l\x1b[?7l\x1b7\x1b[2;2H";
        parts.push(run_part(
            env,
            "enum-wide-finals",
            nf * 3,
            true,
            "every code point U+00A0..=U+FFFF as the final of ESC, ESC SP and CSI 2, from a state with margins, origin and insert mode, a pen, a charset, a hidden cursor and a saved context",
            &|i| {
                let f = finals[i % nf];
                let mut c = Case::new(6, 4, None).feed(st);
                c.tail = vec![match i / nf {
                    0 => format!("\x1b{f}"),
                    1 => format!("\x1b {f}"),
                    _ => format!("\x1b[2{f}"),
                }];
                Some(c)
            },
            &j,
        ));
    }
    parts.push(random_part(env, "random-items", env.tier.scale(150_000, 30), &gen_case, &j));
    parts.push(random_part(env, "long-payloads", env.tier.scale(60_000, 30), &gen_long_payload, &j));
    PropRun {
        parts,
        meta: EvidenceMeta {
            rule: "After a generated history (ending in ground state) and a priming feed_str(\"\"), each inert item is fed in one call: Changes.lines must be empty, no scrollback handed out, visible state, lines() and cursor unchanged, avt's Parser fed the same characters ends in Ground (a Function object returned for an inert item forces the probe battery); hidden state is compared through the probe battery when dump() changed and on a sample otherwise. An item counts as inert iff the reference parser, from ground, dispatches nothing for it, stays inside the specified domain and ends in ground. Non-trivial = the item carries a character that would be active in ground state (so leakage would be visible).".into(),
            assumptions: vec!["CSI 8;..t (parsed, ignored by the terminal) and ED 3 are implemented finals and not in the unimplemented set".into(), "with last-collected-wins dispatch, sequences whose last collected character is ! with final p are DECSTR spellings and excluded".into()],
            not_compared: vec![],
        },
        extra: serde_json::json!({}),
    }
}
