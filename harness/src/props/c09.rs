//! C09 — logical text is reproduced exactly, whatever the width.

use super::PropRun;
use crate::case::{new_vt, Call, Case, Verdict};
use crate::engine::{random_part, run_part, Env, EvidenceMeta, Tally};
use crate::src::Src;
use avt::util::TextUnwrapper;

fn whole(case: &Case) -> Option<(String, bool)> {
    let mut s = String::new();
    let mut per_char = false;
    for c in &case.calls {
        match c {
            Call::FeedStr(p) => s.push_str(p),
            Call::Feed(p) => {
                s.push_str(p);
                per_char = true;
            }
            _ => return None,
        }
    }
    Some((s, per_char))
}

/// the property's input domain: printable characters and CR LF line breaks; every line's
/// trailing blanks are U+0020 only (str::trim_end is Unicode-aware)
fn valid_text(s: &str) -> Result<Vec<String>, String> {
    let lines: Vec<String> = s.split("\r\n").map(|l| l.to_string()).collect();
    for l in &lines {
        for ch in l.chars() {
            let v = ch as u32;
            if v < 0x20 || (0x7f..0xa0).contains(&v) {
                return Err(format!("control character U+{:04X} in text", v));
            }
        }
        if l.trim_end() != l.trim_end_matches(' ') {
            return Err("line ends in non-ASCII white space".into());
        }
    }
    Ok(lines)
}

fn strip_trailing_empty(mut v: Vec<String>) -> Vec<String> {
    while v.last().map(|s| s.is_empty()).unwrap_or(false) {
        v.pop();
    }
    v
}

fn run_text(case: &Case, cols: usize, rows: usize) -> avt::Vt {
    let mut vt = new_vt(cols, rows, None);
    for c in &case.calls {
        crate::case::apply_call(&mut vt, c);
    }
    vt
}

fn unwrapped(vt: &avt::Vt) -> Vec<String> {
    let mut u = TextUnwrapper::new();
    let mut out: Vec<String> = vt.lines().iter().filter_map(|l| u.push(l)).collect();
    out.extend(u.flush());
    out
}

pub fn judge(_part: &str, case: &Case, tally: &mut Tally) -> Verdict {
    if case.limit.is_some() {
        return Verdict::Invalid("C09 uses unlimited scrollback".into());
    }
    let Some((text, _per_char)) = whole(case) else { return Verdict::Invalid("C09 cases only feed text".into()) };
    let lines = match valid_text(&text) {
        Ok(l) => l,
        Err(e) => return Verdict::Invalid(e),
    };
    let want: Vec<String> = strip_trailing_empty(lines.iter().map(|l| l.trim_end_matches(' ').to_string()).collect());
    let sizes = [(case.cols, case.rows), (case.nums.first().copied().unwrap_or(case.cols).max(1), case.nums.get(1).copied().unwrap_or(case.rows).max(1))];
    let mut texts = vec![];
    for (k, (cols, rows)) in sizes.iter().enumerate() {
        let vt = run_text(case, *cols, *rows);
        tally.steps += 1;
        let got = strip_trailing_empty(vt.text());
        if got != want {
            let mut at = 0;
            while at < got.len() && at < want.len() && got[at] == want[at] {
                at += 1;
            }
            return Verdict::fail("text", format!("at {}x{} text() has {} lines, input has {}; first difference at line {}: {:?} vs input {:?}", cols, rows, got.len(), want.len(), at, got.get(at), want.get(at)));
        }
        let un: Vec<String> = strip_trailing_empty(unwrapped(&vt).iter().map(|l| l.trim_end_matches(' ').to_string()).collect());
        if un != want {
            let mut at = 0;
            while at < un.len() && at < want.len() && un[at] == want[at] {
                at += 1;
            }
            return Verdict::fail("unwrap", format!("at {}x{} unwrapping lines() with TextUnwrapper gives {} lines, input has {}; first difference at line {}: {:?} vs input {:?}", cols, rows, un.len(), want.len(), at, un.get(at), want.get(at)));
        }
        let w = *cols;
        if lines.iter().any(|l| l.chars().count() > w) {
            tally.class("a_line_wraps");
            if lines.iter().any(|l| {
                let n = l.chars().count();
                n > 0 && n % w == 0
            }) {
                tally.class("line_length_multiple_of_width");
                if k == 0 {
                    tally.nontrivial = true;
                }
            }
        }
        if vt.lines().len() > *rows {
            tally.class("scrollback_involved");
            tally.nontrivial = true;
        }
        texts.push(vt.text());
    }
    if strip_trailing_empty(texts[0].clone()) != strip_trailing_empty(texts[1].clone()) {
        return Verdict::fail("two-widths", format!("text() differs between {}x{} and {}x{}", sizes[0].0, sizes[0].1, sizes[1].0, sizes[1].1));
    }
    Verdict::Pass
}

/// incl. the boundary code points U+00A0 (first non-C1, also White_Space), U+00A1, U+D7FF, U+E000, U+FFFD, U+10FFFF
const CHARS: [char; 36] = ['\u{301}', '\u{200b}', '\u{200d}', '\u{fe0f}', 'a', 'b', 'c', 'x', 'y', 'z', 'A', 'Z', '0', '9', '!', '~', '`', 'q', ' ', ' ', 'é', 'ß', '世', '界', '─', '│', '😀', '\u{a1}', '\u{a0}', '\u{a0}', '\u{d7ff}', '\u{e000}', '\u{fffd}', '\u{10ffff}', '\u{3000}', '\u{2003}'];

pub fn gen_line(src: &mut Src, w: usize) -> String {
    let len = match src.below(12) {
        0 => 0,
        1 => 1,
        2 => w.saturating_sub(1),
        3 => w,
        4 => w + 1,
        5 => 2 * w - 1,
        6 => 2 * w,
        7 => 2 * w + 1,
        8 => 5 * w,
        9 => 3 * w,
        _ => src.range(0, 6 * w),
    };
    let mut s: String = match src.below(8) {
        0 => " ".repeat(len),
        _ => (0..len).map(|_| *src.pick(&CHARS)).collect(),
    };
    // interior / leading spaces are fine; trailing ones too (U+0020 only)
    // a line must not END in non-ASCII white space (str::trim_end would trim it, which the
    // statement does not promise); interior occurrences are fine and wanted
    if s.trim_end() != s.trim_end_matches(' ') {
        s.push('x');
    }
    if src.chance(1, 5) {
        s.push_str(&" ".repeat(src.range(1, w + 1)));
    }
    s
}

pub fn gen_case(src: &mut Src, _i: usize) -> Case {
    let w = src.range(1, 24);
    let h = src.range(1, 8);
    let n = src.range(0, 30);
    let lines: Vec<String> = (0..n).map(|_| gen_line(src, w)).collect();
    let text = lines.join("\r\n");
    let mut case = Case::new(w, h, None);
    match src.below(3) {
        0 => case.calls.push(Call::FeedStr(text)),
        1 => {
            // one call per line
            for (i, l) in lines.iter().enumerate() {
                let mut p = l.clone();
                if i + 1 < lines.len() {
                    p.push_str("\r\n");
                }
                case.calls.push(Call::FeedStr(p));
            }
        }
        _ => case.calls.push(Call::Feed(text)),
    }
    case.nums = vec![src.range(1, 24), src.range(1, 8)];
    case
}

/// magnitudes: hundreds to thousands of lines, thousands of physical rows above the view
/// ("however much has scrolled into an unlimited scrollback")
pub fn gen_long(src: &mut Src, _i: usize) -> Case {
    let w = *src.pick(&[1usize, 2, 3, 7, 10, 40]);
    let h = *src.pick(&[1usize, 2, 5, 24]);
    let n = *src.pick(&[300usize, 1000, 1101, 1200, 2500, 4000]) + src.below(7);
    let lines: Vec<String> = (0..n)
        .map(|i| {
            let len = match src.below(4) {
                0 => 0,
                1 => src.range(1, w + 1),
                2 => w * src.range(1, 4),
                _ => src.range(0, 3 * w + 2),
            };
            // mixed 1-, 2-, 3- and 4-byte characters: byte offsets and character offsets differ
            (0..len).map(|k| match (i * 7 + k) % 11 { 3 => 'é', 6 => '世', 9 => '😀', _ => (b'a' + ((i * 7 + k) % 26) as u8) as char }).collect()
        })
        .collect();
    let mut case = Case::new(w, h, None);
    match src.below(3) {
        0 => case.calls.push(Call::FeedStr(lines.join("\r\n"))),
        1 => {
            // one call per line (the scrollback handed out by each call is dropped)
            for (i, l) in lines.iter().enumerate() {
                let mut p = l.clone();
                if i + 1 < lines.len() {
                    p.push_str("\r\n");
                }
                case.calls.push(Call::FeedStr(p));
            }
        }
        _ => {
            // a few big chunks cut anywhere
            let text = lines.join("\r\n");
            let chars: Vec<char> = text.chars().collect();
            let k = src.range(2, 6);
            let step = chars.len() / k + 1;
            for c in chars.chunks(step.max(1)) {
                case.calls.push(Call::FeedStr(c.iter().collect()));
            }
        }
    }
    case.nums = vec![*src.pick(&[1usize, 3, 11, 80]), src.range(1, 8)];
    case
}

/// fixed texts swept over every (w, h)
fn enum_sweep() -> Vec<Case> {
    let texts: Vec<String> = vec![
        "hello world\r\nsecond line\r\n\r\nfourth".into(),
        "abcdefghijklmnopqrstuvwxyz".into(),
        "abcdef\r\nabcdefghijkl\r\nabc\r\n".into(),
        "   leading\r\ntrailing   \r\n      \r\nx".into(),
        "世界世界世界世界\r\néééééééééééé\r\n😀😀😀".into(),
        (0..40).map(|i| format!("l{}", i)).collect::<Vec<_>>().join("\r\n"),
        "a\r\n\r\n\r\n\r\nb".into(),
        "a\u{a0}b\u{a0}\u{a0}c\u{a1}\u{d7ff}\u{e000}\u{10ffff}d\r\n\u{a0}lead\u{3000}x".into(),
        "".into(),
        "12345678\r\n1234567812345678\r\n123456781234567812345678".into(),
    ];
    let mut v = vec![];
    for t in &texts {
        for w in 1..=26usize {
            for h in 1..=8usize {
                let mut c = Case::new(w, h, None).feed(t.clone());
                c.nums = vec![(w * 7 + h) % 26 + 1, (h * 3 + w) % 8 + 1];
                v.push(c);
            }
        }
    }
    v
}

pub fn run(env: &Env) -> PropRun {
    let j = |c: &Case, t: &mut Tally| judge("", c, t);
    let mut parts = vec![];
    let es = enum_sweep();
    parts.push(run_part(env, "enum-width-height-sweep", es.len(), true, "10 fixed texts x every width 1..=26 x every height 1..=8 (and a second derived size each)", &|i| es.get(i).cloned(), &j));
    parts.push(random_part(env, "long-texts", env.tier.scale(160, 30), &gen_long, &j));
    parts.push(random_part(env, "random-texts", env.tier.scale(200_000, 30), &gen_case, &j));
    PropRun {
        parts,
        meta: EvidenceMeta {
            rule: "Texts of 0-30 lines (lengths from {0,1,w-1,w,w+1,2w-1,2w,2w+1,3w,5w,random<=6w}; ASCII, Latin-1, CJK, box drawing, astral; space-only lines; trailing U+0020) fed as one string, per line, or per character through feed(): text() minus trailing empty lines == input lines with trailing spaces removed; TextUnwrapper over lines() gives the same up to trailing spaces; the same text at a second (w,h) gives the same text(). Non-trivial = a line wraps and some line length is an exact multiple of the width, or output exceeds the screen height.".into(),
            assumptions: vec!["'printable' excludes C0, DEL and C1; every character occupies one cell".into()],
            not_compared: vec!["pens".into(), "lines ending in non-ASCII White_Space are never generated (str::trim_end would trim them)".into()],
        },
        extra: serde_json::json!({}),
    }
}
