//! C02 — screen geometry invariants hold after every public call.

use super::PropRun;
use crate::case::{new_vt, Call, Case, Verdict};
use crate::engine::{random_part, Env, EvidenceMeta, Tally};
use crate::gen::{self, G};
use crate::observe::{changes_violation, geometry_violation};
use crate::src::Src;
use crate::walk::{Event, WalkEnd, Walker};

/// raw judge: whole calls as given, invariants after each, no tracker needed
fn judge_raw(case: &Case, tally: &mut Tally) -> Verdict {
    let mut vt = new_vt(case.cols, case.rows, case.limit);
    let mut size = (case.cols, case.rows);
    let mut seen_resize_or_switch = false;
    if let Some(m) = geometry_violation(&vt, size) {
        return Verdict::fail("geometry-initial", m);
    }
    for (i, call) in case.calls.iter().enumerate() {
        let mut changed: Option<Vec<usize>> = None;
        match call {
            Call::FeedStr(s) => {
                if s.contains("?1049") || s.contains("?1047") || s.contains("?47") {
                    seen_resize_or_switch = true;
                }
                let ch = vt.feed_str(s);
                changed = Some(ch.lines.clone());
            }
            Call::Feed(s) => {
                if s.contains("?1049") || s.contains("?1047") || s.contains("?47") {
                    seen_resize_or_switch = true;
                }
                for c in s.chars() {
                    vt.feed(c);
                    // feed() is a public call too
                    if let Some(m) = geometry_violation(&vt, size) {
                        return Verdict::fail("geometry", format!("after feed({:?}) in call {}: {}", c, i, m));
                    }
                }
            }
            Call::Resize(c, r) => {
                seen_resize_or_switch = true;
                let ch = vt.resize(*c, *r);
                changed = Some(ch.lines.clone());
                drop(ch);
                size = (*c, *r);
            }
            Call::Dump => {
                let _ = vt.dump();
            }
            Call::Text => {
                let _ = vt.text();
            }
            Call::Query => {
                let _ = vt.cursor();
            }
        }
        tally.steps += 1;
        if let Some(m) = geometry_violation(&vt, size) {
            return Verdict::fail("geometry", format!("after call {} ({}): {}", i, render_call(call), m));
        }
        if let Some(ch) = changed {
            if let Some(m) = changes_violation(&ch, size.1) {
                return Verdict::fail("changes", format!("after call {} ({}): {}", i, render_call(call), m));
            }
        }
        if i > 0 && seen_resize_or_switch {
            tally.nontrivial = true;
        }
    }
    Verdict::Pass
}

fn render_call(c: &Call) -> String {
    match c {
        Call::FeedStr(s) => format!("feed_str({:?})", crate::case::clip(s, 60)),
        Call::Feed(s) => format!("feed*({:?})", crate::case::clip(s, 60)),
        Call::Resize(c, r) => format!("resize({},{})", c, r),
        other => format!("{:?}", other),
    }
}

/// tracked judge (in-domain input): additionally, cursor.col == cols only where the
/// one-step spec says a print parked the cursor in the wrap-pending position
fn judge_tracked(case: &Case, tally: &mut Tally) -> Verdict {
    let mut w = Walker::new(case);
    let mut size = (case.cols, case.rows);
    let mut special = false;
    let end = w.walk(case, &mut |wk, ev| {
        match ev {
            Event::Step(rec) => {
                tally.steps += 1;
                if rec.entered_alt || rec.left_alt {
                    special = true;
                    tally.class("buffer_switch");
                }
                if rec.left_alt && rec.stale_primary {
                    tally.class("return_to_stale_primary");
                }
                if let Some(m) = geometry_violation(&wk.vt, size) {
                    return Some(Verdict::fail("geometry", format!("after {:?}: {}", rec.f, m)));
                }
                if let Some(m) = changes_violation(rec.changed, size.1) {
                    return Some(Verdict::fail("changes", format!("after {:?}: {}", rec.f, m)));
                }
                let cols = rec.got.cols;
                // (where the statements leave the cursor open - after an invalid DECSTBM - a
                // wrap-pending column that was already there before the step is legitimate)
                let unspecified_and_was_pending = rec.eff.cursor_unspecified && rec.pre.col == rec.pre.cols;
                if rec.got.col == cols && !(rec.left_alt && rec.stale_primary) && rec.exp.col != cols && !unspecified_and_was_pending {
                    return Some(Verdict::fail(
                        "pending-col",
                        format!("after {:?} the cursor column equals cols ({}) although no print parked it there (expected column {})", rec.f, cols, rec.exp.col),
                    ));
                }
                if special {
                    tally.nontrivial = true;
                }
                None
            }
            Event::Resized { from, to, pre, got, changed, .. } => {
                tally.steps += 1;
                special = true;
                size = to;
                tally.class("resize");
                if wk.modes.alt {
                    tally.class("resize_on_alternate");
                }
                if let Some(m) = geometry_violation(&wk.vt, size) {
                    return Some(Verdict::fail("geometry", format!("after resize {:?} -> {:?}: {}", from, to, m)));
                }
                if let Some(m) = changes_violation(changed, size.1) {
                    return Some(Verdict::fail("changes", format!("after resize {:?} -> {:?}: {}", from, to, m)));
                }
                if got.col == got.cols && !(from.0 == to.0 && pre.col == pre.cols) {
                    return Some(Verdict::fail("pending-col", format!("after resize {:?} -> {:?} the cursor column equals cols although the width changed or no wrap was pending", from, to)));
                }
                tally.nontrivial = true;
                None
            }
            Event::CallEnd { .. } => None,
        }
    });
    match end {
        WalkEnd::Done => Verdict::Pass,
        WalkEnd::Stopped(v) => v,
    }
}

pub fn judge(part: &str, case: &Case, tally: &mut Tally) -> Verdict {
    if part.starts_with("tracked") {
        judge_tracked(case, tally)
    } else {
        judge_raw(case, tally)
    }
}

pub fn gen_raw(src: &mut Src, _i: usize) -> Case {
    let big = src.chance(1, 6);
    super::c01::gen_history_x(src, big, false)
}

pub fn gen_tracked(src: &mut Src, _i: usize) -> Case {
    let mut case = gen::structured_case(src, true, true, 25, 10);
    case.limit = gen::limit(src);
    case
}

/// the three state shapes the property names
pub fn gen_shapes(src: &mut Src, _i: usize) -> Case {
    let (cols, rows) = gen::small_size(src);
    let mut g = G::new(cols, rows);
    let mut case = Case::new(cols, rows, gen::limit(src));
    match src.below(3) {
        0 => {
            // stale parked buffer: enter alt -> resize chain -> leave (mixed numbers)
            case.calls.push(Call::FeedStr(gen::input(src, &g.clone().no_alt().no_ris(), 8)));
            case.calls.push(Call::FeedStr(format!("\x1b[?{}h", src.pick(&[47, 1047, 1049]))));
            for _ in 0..src.range(1, 4) {
                if src.chance(2, 3) {
                    let (c, r) = gen::resize_target(src, &g);
                    g.cols = c;
                    g.rows = r;
                    case.calls.push(Call::Resize(c, r));
                } else {
                    case.calls.push(Call::FeedStr(gen::input(src, &g.clone().no_alt().no_ris(), 5)));
                }
            }
            case.calls.push(Call::FeedStr(format!("\x1b[?{}l", src.pick(&[47, 1047, 1049]))));
            case.calls.push(Call::FeedStr(gen::input(src, &g, 4)));
        }
        1 => {
            // saved cursor outside a shrunken screen: save -> shrink -> restore, both screens
            if src.chance(1, 2) {
                case.calls.push(Call::FeedStr("\x1b[?1047h".into()));
            }
            case.calls.push(Call::FeedStr(format!("\x1b[{};{}H{}", rows, cols, src.pick(&["\x1b7", "\x1b[s", "\x1b[?1048h"]))));
            if src.chance(1, 3) {
                case.calls.push(Call::FeedStr(format!("\x1b[?{}{}", src.pick(&[47, 1047, 1049]), src.pick(&['h', 'l']))));
            }
            let (c, r) = (src.range(1, cols), src.range(1, rows));
            g.cols = c;
            g.rows = r;
            case.calls.push(Call::Resize(c, r));
            if src.chance(1, 3) {
                case.calls.push(Call::FeedStr(format!("\x1b[?{}{}", src.pick(&[47, 1047, 1049]), src.pick(&['h', 'l']))));
            }
            case.calls.push(Call::FeedStr(src.pick(&["\x1b8", "\x1b[u", "\x1b[?1048l", "\x1b[?1049l"]).to_string()));
            case.calls.push(Call::FeedStr(gen::input(src, &g, 4)));
        }
        _ => {
            // cursor above the view after narrowing: long wrapped lines, cursor on the first row
            let len = cols * src.range(2, 6);
            let mut s = String::from("\x1b[1;1H");
            for k in 0..len {
                s.push((b'a' + (k % 26) as u8) as char);
            }
            s.push_str(&format!("\x1b[1;{}H", src.range(1, cols)));
            case.calls.push(Call::FeedStr(s));
            let c = src.range(1, 2);
            let r = src.range(1, rows + 1);
            g.cols = c;
            g.rows = r;
            case.calls.push(Call::Resize(c, r));
            case.calls.push(Call::FeedStr(gen::input(src, &g, 4)));
            if src.chance(1, 2) {
                let (c, r) = gen::resize_target(src, &g);
                case.calls.push(Call::Resize(c, r));
            }
        }
    }
    case
}

pub fn run(env: &Env) -> PropRun {
    let jr = |c: &Case, t: &mut Tally| judge_raw(c, t);
    let jt = |c: &Case, t: &mut Tally| judge_tracked(c, t);
    let mut parts = vec![];
    parts.push(random_part(env, "raw-histories", env.tier.scale(100_000, 40), &gen_raw, &jr));
    parts.push(random_part(env, "raw-shapes", env.tier.scale(60_000, 40), &gen_shapes, &jr));
    parts.push(random_part(env, "raw-many-calls", env.tier.scale(200, 20), &|s: &mut Src, i| super::c01::gen_many_calls(s, i), &jr));
    parts.push(random_part(env, "tracked-histories", env.tier.scale(60_000, 40), &gen_tracked, &jt));
    parts.push(random_part(env, "tracked-shapes", env.tier.scale(40_000, 40), &gen_shapes, &jt));
    PropRun {
        parts,
        meta: EvidenceMeta {
            rule: "After every public call (feed_str, every single feed(), resize, dump/text/queries): size() == last requested, view().len() == rows, view() == tail of lines(), line(i) == view()[i], every line has cols cells, lines().len() >= rows, last line not soft-wrapped, cursor.row < rows, cursor.col <= cols, Changes.lines strictly increasing and < rows. Tracked parts (in-domain input) also require cursor.col == cols only where the one-step spec says a print parked it (and after a resize only if the width is unchanged and a wrap was pending). Non-trivial = a checked state after the first call in a history that contains a resize or a buffer switch.".into(),
            assumptions: vec!["soft-wrap mark observed through TextUnwrapper::push(..).is_none()".into()],
            not_compared: vec!["after XTWINOPS (dead code) nothing special is assumed".into()],
        },
        extra: serde_json::json!({}),
    }
}
