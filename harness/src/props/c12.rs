//! C12 — result is independent of how the input stream is chunked.

use super::PropRun;
use crate::case::{new_vt, Call, Case, Verdict};
use crate::engine::{random_part, run_part, Env, EvidenceMeta, Tally};
use crate::gen::{self, G};
use crate::observe::{equivalent, visible, Recipe};
use crate::refparser::{RefParser, St};
use crate::src::Src;

fn whole_input(case: &Case) -> Option<String> {
    let mut s = String::new();
    for c in &case.calls {
        match c {
            Call::FeedStr(p) | Call::Feed(p) => s.push_str(p),
            Call::Dump | Call::Text | Call::Query => {}
            Call::Resize(..) => return None,
        }
    }
    Some(s)
}

fn compare(case: &Case, whole: &str, reference: &avt::Vt, variant: &[Call], name: &str, deep: bool) -> Option<Verdict> {
    let mut vt = new_vt(case.cols, case.rows, case.limit);
    crate::case::apply_calls(&mut vt, variant);
    let (a, b) = (visible(reference), visible(&vt));
    if a != b {
        let what = if a.screen.cells != b.screen.cells {
            "visible cells"
        } else if a.screen.wraps != b.screen.wraps {
            "soft-wrap marks"
        } else if (a.screen.col, a.screen.row) != (b.screen.col, b.screen.row) {
            "cursor position"
        } else if a.cursor_visible != b.cursor_visible {
            "cursor visibility"
        } else {
            "cursor-key mode"
        };
        return Some(Verdict::fail(format!("{}-visible", name), format!("{} differ between one feed_str of the whole input and chunking '{}' ({} pieces); whole input {:?}", what, name, variant.len(), crate::case::clip(whole, 200))));
    }
    if case.limit.is_none() && reference.lines() != vt.lines() {
        return Some(Verdict::fail(
            format!("{}-lines", name),
            format!("lines() differ (unlimited scrollback): whole input gives {} lines, chunking '{}' gives {}; whole input {:?}", reference.lines().len(), name, vt.lines().len(), crate::case::clip(whole, 200)),
        ));
    }
    // hidden modes: behavioural probes (always when the dumps differ, else when `deep`)
    let dumps_differ = reference.dump() != vt.dump();
    if dumps_differ || deep {
        let ra = Recipe { cols: case.cols, rows: case.rows, limit: case.limit, calls: vec![Call::FeedStr(whole.to_string())] };
        let rb = Recipe { cols: case.cols, rows: case.rows, limit: case.limit, calls: variant.to_vec() };
        if let Err(d) = equivalent(&ra, &rb, true) {
            return Some(Verdict::fail(format!("{}-modes", name), format!("hidden state differs between the whole input and chunking '{}': after probes {:?}: {}; whole input {:?}", name, d.after, d.what, crate::case::clip(whole, 200))));
        }
    }
    None
}

pub fn judge(_part: &str, case: &Case, tally: &mut Tally) -> Verdict {
    let Some(whole) = whole_input(case) else { return Verdict::Invalid("C12 cases contain no resize".into()) };
    let chars: Vec<char> = whole.chars().collect();
    let n = chars.len();
    let mut reference = new_vt(case.cols, case.rows, case.limit);
    let _ = reference.feed_str(&whole);
    let deep = case.nums.first().copied().unwrap_or(0) == 1;

    // non-triviality: a cut strictly inside a sequence, and scrolling or a screen switch
    let mut p = RefParser::new();
    let mut inside = false;
    let mut switch = false;
    for (i, ch) in chars.iter().enumerate() {
        let o = p.feed(*ch);
        if p.state != St::Ground && i + 1 < n {
            inside = true;
        }
        if let Some(crate::reffn::RefFn::Decset(ms)) | Some(crate::reffn::RefFn::Decrst(ms)) = &o.func {
            if ms.iter().any(|m| *m == 1047 || *m == 1049) {
                switch = true;
            }
        }
    }
    let scrolled = reference.lines().len() > case.rows || whole.contains('\n');
    if inside {
        tally.class("cut_inside_sequence");
    }
    if switch {
        tally.class("screen_switch");
    }
    if scrolled {
        tally.class("scrolls");
    }
    if inside && (switch || scrolled) {
        tally.nontrivial = true;
    }

    // 1. the chunking given by the case
    let given: Vec<Call> = case.calls.iter().filter(|c| matches!(c, Call::FeedStr(_) | Call::Feed(_))).cloned().collect();
    tally.steps += 1;
    if let Some(v) = compare(case, &whole, &reference, &given, "given", deep) {
        return v;
    }
    // 2. one character per feed_str
    let per_char: Vec<Call> = chars.iter().map(|c| Call::FeedStr(c.to_string())).collect();
    tally.steps += 1;
    if let Some(v) = compare(case, &whole, &reference, &per_char, "char-per-feed_str", false) {
        return v;
    }
    // 3. feed() per character
    tally.steps += 1;
    if let Some(v) = compare(case, &whole, &reference, &[Call::Feed(whole.clone())], "feed-per-char", deep) {
        return v;
    }
    // 4. every two-piece split
    if n <= 64 {
        tally.class("all_single_cuts");
        for k in 1..n {
            let a: String = chars[..k].iter().collect();
            let b: String = chars[k..].iter().collect();
            tally.steps += 1;
            if let Some(v) = compare(case, &whole, &reference, &[Call::FeedStr(a), Call::FeedStr(b)], "two-pieces", false) {
                return v;
            }
        }
    }
    // 5. every subset of cut points
    if n >= 2 && n <= 10 {
        tally.class("all_cut_subsets");
        for mask in 0u32..(1u32 << (n - 1)) {
            let mut pieces = vec![];
            let mut cur = String::new();
            for (i, ch) in chars.iter().enumerate() {
                cur.push(*ch);
                if i + 1 < n && (mask >> i) & 1 == 1 {
                    pieces.push(Call::FeedStr(std::mem::take(&mut cur)));
                }
            }
            pieces.push(Call::FeedStr(cur));
            tally.steps += 1;
            if let Some(v) = compare(case, &whole, &reference, &pieces, "cut-subset", false) {
                return v;
            }
        }
    }
    Verdict::Pass
}

fn chunk(src: &mut Src, s: &str) -> Vec<Call> {
    let chars: Vec<char> = s.chars().collect();
    let mut calls = vec![];
    let mut i = 0;
    let maxp = *src.pick(&[2usize, 5, 12, 40]);
    while i < chars.len() {
        let n = src.range(1, maxp);
        let e = (i + n).min(chars.len());
        let piece: String = chars[i..e].iter().collect();
        if src.chance(1, 6) {
            calls.push(Call::Feed(piece));
        } else {
            calls.push(Call::FeedStr(piece));
        }
        i = e;
    }
    calls
}

pub fn gen_case(src: &mut Src, raw: bool, max_frags: usize) -> Case {
    let (cols, rows) = if src.chance(1, 20) { (80, 24) } else { gen::small_size(src) };
    let mut g = G::new(cols, rows);
    if raw {
        g = g.with_raw(6);
    }
    g.w[gen::CAT_C0] = 10;
    g.w[gen::CAT_ALT] = 5;
    let s = gen::input(src, &g, max_frags);
    let mut case = Case::new(cols, rows, gen::limit(src));
    if src.chance(1, 2) {
        case.limit = None;
    }
    case.calls = chunk(src, &s);
    case.nums = vec![src.chance(1, 8) as usize];
    case
}

pub fn gen_structured(src: &mut Src, _i: usize) -> Case {
    gen_case(src, false, 12)
}
pub fn gen_raw(src: &mut Src, _i: usize) -> Case {
    gen_case(src, true, 10)
}
pub fn gen_short(src: &mut Src, _i: usize) -> Case {
    // short inputs (<= 10 chars get every subset of cut points)
    let raw = src.chance(1, 3);
    let mut c = gen_case(src, raw, 2);
    let whole: String = whole_input(&c).unwrap_or_default().chars().take(10).collect();
    c.calls = vec![Call::FeedStr(whole)];
    c
}

/// a buffer that keeps no scrollback (alternate screen, or limit 0) accumulates scrolled-out
/// rows until the end of the call: bursts of scrolling of every kind inside ONE input - region
/// anchored at the top or not, counts above half the height - versus the same input cut up
pub fn gen_scroll_bursts(src: &mut Src, _i: usize) -> Case {
    let cols = src.range(2, 7);
    let rows = src.range(3, 9);
    let alt = src.chance(1, 2);
    let mut case = Case::new(cols, rows, if alt { *src.pick(&[None, Some(0), Some(3)]) } else { Some(0) });
    let mut s = String::new();
    if alt {
        s.push_str(*src.pick(&["\x1b[?1049h", "\x1b[?1047h"]));
    }
    let mark = |s: &mut String, k: usize| {
        for r in 0..rows {
            s.push_str(&format!("\x1b[{};1H{}{}", r + 1, (b'A' + ((r + k) % 26) as u8) as char, (b'a' + ((r * 3 + k) % 26) as u8) as char));
        }
    };
    mark(&mut s, 0);
    match src.below(4) {
        0 => {}
        1 => s.push_str(&format!("\x1b[1;{}r", src.range(2, rows - 1).max(2))),
        2 => s.push_str(&format!("\x1b[{};{}r", src.range(2, rows - 1), rows)),
        _ => {
            let t = src.range(1, rows - 1);
            s.push_str(&format!("\x1b[{};{}r", t, src.range(t + 1, rows)));
        }
    }
    for k in 0..src.range(2, 8) {
        match src.below(9) {
            0 | 1 => s.push_str(&format!("\x1b[{};1H{}", rows, "\n".repeat(src.range(1, rows + 2)))),
            2 => s.push_str(&format!("\x1b[999;1H{}", "\n".repeat(src.range(1, 4)))),
            3 => s.push_str(&format!("\x1b[{}S", src.range(1, rows + 1))),
            4 => s.push_str(&format!("\x1b[H\x1b[{}M", src.range(1, rows + 1))),
            5 => s.push_str(&format!("\x1b[{}T", src.range(1, rows))),
            6 => s.push_str(&format!("\x1b[{};1Hxy{}", src.range(1, rows), "z".repeat(src.range(0, cols * 2)))),
            7 => mark(&mut s, k + 1),
            _ => s.push_str(&format!("\x1b[{};1H\x1b[{}L", src.range(1, rows), src.range(1, 3))),
        }
    }
    case.calls.push(Call::FeedStr(s));
    case
}

/// long inputs: thousands to tens of thousands of characters in one call vs chunked
pub fn gen_long(src: &mut Src, _i: usize) -> Case {
    let (cols, rows) = if src.chance(1, 3) { (*src.pick(&[80usize, 132, 300]), *src.pick(&[24usize, 50])) } else { gen::small_size(src) };
    let mut g = G::new(cols, rows);
    g.w[gen::CAT_C0] = 12;
    g.w[gen::CAT_TEXT] = 14;
    g.w[gen::CAT_ALT] = 2;
    g.w[gen::CAT_INERT] = 4;
    let target = *src.pick(&[1500usize, 4096, 5000, 9000, 20000]);
    let mut s = String::new();
    let mut n = 0;
    while n < target {
        let f = if src.chance(1, 30) {
            // one very long string payload / text run
            let len = src.range(200, 3000);
            let body: String = (0..len).map(|k| (b'a' + (k % 26) as u8) as char).collect();
            match src.below(4) {
                0 => format!("\x1b]0;{}\x07", body),
                1 => {
                    // a C1 string introducer in the middle of a string payload starts another
                    // kind of string (in which BEL is payload): the text between the BEL and
                    // the ST stays hidden - whatever the chunking
                    let c1 = *src.pick(&['\u{98}', '\u{9e}', '\u{9f}', '\u{90}', '\u{9d}']);
                    let cut = body.len() / 2;
                    format!("{}{}{}{}\x07hidden{}shown", *src.pick(&["\x1b]", "\u{9d}", "\x1b_", "\x1bP"]), &body[..cut], c1, &body[cut..], *src.pick(&["\x1b\\", "\u{9c}"]))
                }
                _ => body,
            }
        } else {
            gen::frag(src, &g)
        };
        n += f.chars().count();
        s.push_str(&f);
    }
    let mut case = Case::new(cols, rows, if src.chance(1, 2) { None } else { gen::limit(src) });
    // chunk sizes around typical read-buffer sizes
    let chars: Vec<char> = s.chars().collect();
    let sz = *src.pick(&[1usize, 7, 255, 256, 1024, 4096]);
    let mut i = 0;
    while i < chars.len() {
        let e = (i + sz + src.below(3)).min(chars.len());
        case.calls.push(Call::FeedStr(chars[i..e].iter().collect()));
        i = e;
    }
    case.nums = vec![0];
    case
}

/// every implemented sequence family once, cut at every position, on both screens
fn enum_sequences() -> Vec<Case> {
    let seqs = [
        "\x1b[2;3H", "\x1b[?1049h", "\x1b[?1049l", "\x1b[?6;7h", "\x1b[1;31;48;5;200m", "\x1b[38:2::1:2:3m", "\x1b[3;4r", "\x1b(0", "\x1b)0", "\x1b#8", "\x1b[!p", "\x1b[4h", "\x1b[20h", "\x1b[5b", "\x1b[2L", "\x1b[2M",
        "\x1b[3S", "\x1b[2T", "\x1b]0;title\x07", "\x1b]0;title\x1b\\", "\x1bPq#1\x1b\\", "\x1b_apc\u{9c}", "\u{9b}5;5H", "\u{9b}?25l", "\x1bc", "\x1b7", "\x1b8", "\x1bM", "\x1bD", "\x1bE", "\x1bH", "\x1b[3g", "\x1b[5W", "\x1b[2J",
        "\x1b[1K", "\x1b[3@", "\x1b[3P", "\x1b[3X", "\x1b[2I", "\x1b[2Z", "\x1b[?1048h", "\x1b[?1048l", "\x1b[s", "\x1b[u", "\x1b[8;3;4t", "\x1b[1\x18;2H", "\x1b[1\x1b[2;2H",
    ];
    let mut v = vec![];
    for (cols, rows) in [(4usize, 3usize), (10, 4)] {
        for pre in ["", "ab\r\ncdefgh\r\n", "\x1b[?1047habc\n\n\n\n", "\x1b[2;3r\x1b[?6h\x1b[41m"] {
            for s in seqs {
                for post in ["Xy", "\n\n\nZ"] {
                    for limit in [None, Some(0)] {
                        let whole = format!("{}{}{}", pre, s, post);
                        v.push(Case::new(cols, rows, limit).feed(whole).with_nums(vec![1]));
                    }
                }
            }
        }
    }
    v
}

pub fn run(env: &Env) -> PropRun {
    let j = |c: &Case, t: &mut Tally| judge("", c, t);
    let mut parts = vec![];
    let es = enum_sequences();
    parts.push(run_part(env, "enum-sequences", es.len(), true, "47 sequence families x 4 prefixes x 2 suffixes x 2 sizes x {unlimited, limit 0}: each input fed whole, per character (feed_str and feed()), and cut at every single position", &|i| es.get(i).cloned(), &j));
    parts.push(random_part(env, "short-all-cuts", env.tier.scale(40_000, 30), &gen_short, &j));
    parts.push(random_part(env, "scroll-bursts", env.tier.scale(12_000, 30), &gen_scroll_bursts, &j));
    // more scrolls inside one call than any 16-bit counter or batch size holds, on both
    // screens (the alternate screen keeps no scrollback whatever the configured limit)
    let mut fl: Vec<Case> = vec![];
    for n in [65_535usize, 65_537, 70_000, 140_000] {
        for pre in ["", "\x1b[?1049h", "\x1b[?1047h\x1b[1;2r", "\x1b[1;2r"] {
            for unit in ["\n", "x\n"] {
                for limit in [None, Some(7usize)] {
                    let mut c = Case::new(4, 3, limit).feed(format!("{}{}", pre, unit.repeat(n)));
                    c.calls.push(Call::FeedStr("tail\x1b[H".into()));
                    fl.push(c);
                }
            }
        }
    }
    parts.push(run_part(env, "enum-floods", fl.len(), true, "4x3: {65535, 65537, 70000, 140000} line feeds (bare / after a character) in ONE feed_str x {primary, alternate, either with a top-anchored region} x {unlimited, limit 7}: whole vs per character (feed_str and feed()) vs the given cut", &|i| fl.get(i).cloned(), &j));
    parts.push(random_part(env, "long-inputs", env.tier.scale(200, 30), &gen_long, &j));
    parts.push(random_part(env, "structured", env.tier.scale(25_000, 30), &gen_structured, &j));
    parts.push(random_part(env, "raw", env.tier.scale(15_000, 30), &gen_raw, &j));
    PropRun {
        parts,
        meta: EvidenceMeta {
            rule: "For each input: one feed_str of the whole vs (1) the generated chunking (feed_str pieces mixed with feed()-per-char pieces), (2) one character per feed_str, (3) feed() per character, (4) every two-piece split when <= 64 chars, (5) every subset of cut points when <= 10 chars. Compared: visible cells/pens/soft-wrap marks, cursor, visibility, cursor-key mode; lines() (exact Line equality) with unlimited scrollback; hidden modes through the probe battery whenever the dumps differ and on a sample otherwise. Non-trivial = some cut falls strictly inside an escape sequence and the input scrolls or switches screens.".into(),
            assumptions: vec!["dump() strings of two terminals of the same build are only used as a trigger for behavioural probing".into()],
            not_compared: vec!["lines() under a finite scrollback limit (feed() never trims the primary buffer; C13 speaks of feed_str/resize only)".into()],
        },
        extra: serde_json::json!({}),
    }
}
