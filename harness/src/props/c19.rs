//! C19 — RIS returns the terminal to its power-on state from anywhere.

use super::PropRun;
use crate::case::{Call, Case, Verdict};
use crate::engine::{random_part, run_part, Env, EvidenceMeta, Tally};
use crate::gen::{self, G};
use crate::observe::{equivalent, equivalent_after, Recipe};
use crate::refparser::St;
use crate::src::Src;
use crate::walk::ScreenTracker;

pub fn judge(_part: &str, case: &Case, tally: &mut Tally) -> Verdict {
    let mut calls: Vec<Call> = case.calls.iter().filter(|c| matches!(c, Call::FeedStr(_) | Call::Feed(_) | Call::Resize(..))).cloned().collect();
    // current size and parser/screen state before the reset (bookkeeping only)
    let mut size = (case.cols, case.rows);
    let mut tr = ScreenTracker::new();
    let mut kinds = std::collections::BTreeSet::new();
    for c in &calls {
        match c {
            Call::Resize(c, r) => size = (*c, *r),
            Call::FeedStr(s) | Call::Feed(s) => {
                tr.feed_str(s);
                let (fs, _, _) = crate::walk::functions_of(s);
                for f in fs {
                    kinds.insert(crate::spec::kind(&f));
                }
            }
            _ => {}
        }
    }
    if tr.parser.state != St::Ground {
        tally.class("parser_not_in_ground");
        tally.nontrivial = true;
    }
    if tr.alt != Some(false) {
        tally.class("alternate_screen_active");
        tally.nontrivial = true;
    }
    if kinds.len() >= 4 {
        tally.nontrivial = true;
    }
    calls.push(Call::FeedStr("\x1bc".into()));
    let reset_r = Recipe { cols: case.cols, rows: case.rows, limit: case.limit, calls };
    let fresh_r = Recipe { cols: size.0, rows: size.1, limit: case.limit, calls: vec![] };
    tally.steps += 1;
    let (a, b) = (reset_r.build(), fresh_r.build());
    if a.lines() != b.lines() {
        return Verdict::fail("lines", format!("after ESC c lines() has {} lines (fresh terminal: {}), or their content differs from blank", a.lines().len(), b.lines().len()));
    }
    if a.text() != b.text() {
        return Verdict::fail("text", "after ESC c text() differs from a fresh terminal's".to_string());
    }
    if let Err(d) = equivalent(&reset_r, &fresh_r, true) {
        return Verdict::fail(if d.after.is_empty() { "immediate" } else { "probe" }, format!("after ESC c the terminal differs from a fresh {}x{} terminal: {} (after probes {:?})", size.0, size.1, d.what, d.after));
    }
    if !case.tail.is_empty() {
        if let Err(d) = equivalent_after(&reset_r, &fresh_r, &case.tail) {
            return Verdict::fail("continuation", format!("after ESC c and continuation {:?} the terminal differs from a fresh one fed the same: {}", d.after, d.what));
        }
        // scrollback must also evolve identically
        let (mut x, mut y) = (reset_r.build(), fresh_r.build());
        for t in &case.tail {
            let _ = x.feed_str(t);
            let _ = y.feed_str(t);
        }
        if x.lines() != y.lines() {
            return Verdict::fail("continuation-lines", "after ESC c and a continuation, lines() differs from a fresh terminal fed the same".to_string());
        }
    }
    if a.dump() != b.dump() {
        // not judged by itself (the text of dump() is free), but it cannot be equal state
        tally.class("dump_differs_from_fresh");
        let ra = Recipe { cols: size.0, rows: size.1, limit: None, calls: vec![Call::FeedStr(a.dump())] };
        let rb = Recipe { cols: size.0, rows: size.1, limit: None, calls: vec![Call::FeedStr(b.dump())] };
        if let Err(d) = equivalent(&ra, &rb, true) {
            return Verdict::fail("dump", format!("the dump of the reset terminal restores to something else than the dump of a fresh terminal: {} (after probes {:?})", d.what, d.after));
        }
    }
    Verdict::Pass
}

pub fn gen_case(src: &mut Src, _i: usize) -> Case {
    let (cols, rows) = if src.chance(1, 15) { (80, 24) } else { gen::small_size(src) };
    let mut g = G::new(cols, rows).with_raw(2);
    g.w[gen::CAT_TABSET] = 4;
    g.w[gen::CAT_STBM] = 4;
    g.w[gen::CAT_DECMODE] = 6;
    g.w[gen::CAT_SAVE] = 4;
    g.w[gen::CAT_CHARSET] = 4;
    g.w[gen::CAT_ANSIMODE] = 4;
    g.w[gen::CAT_ALT] = 5;
    let mut case = Case::new(cols, rows, gen::limit(src));
    let n = src.range(1, 6);
    case.calls = gen::history(src, &mut g, n, 15, 10, 0, false);
    // cut the last feed anywhere
    if src.chance(1, 2) {
        if let Some(Call::FeedStr(s)) = case.calls.last_mut() {
            let chars: Vec<char> = s.chars().collect();
            let k = src.below(chars.len() + 1);
            *s = chars[..k].iter().collect();
        }
    }
    let mut tail = vec![];
    for _ in 0..src.range(1, 3) {
        tail.push(gen::input(src, &g, 8));
    }
    case.tail = tail;
    case
}

/// every parser state x every mode setter, explicitly
fn enum_states() -> Vec<Case> {
    let partial = ["", "\x1b", "\x1b(", "\x1b[", "\x1b[3;4", "\x1b[?25", "\x1b[1 ", "\x1b[:", "\x1bP", "\x1bP1;2", "\x1bP1$", "\x1bPq", "\x1bP:", "\x1b]0;ti", "\x1b_apc", "\u{9b}1", "\u{90}", "\u{9d}"];
    let setters = [
        "", "\x1b[?1h", "\x1b[?6h", "\x1b[?7l", "\x1b[?25l", "\x1b[4h", "\x1b[20h", "\x1b[2;3r", "\x1b[3g\x1b[5G\x1bH", "\x1b(0", "\x1b)0\x0e", "\x1b[1;35;44m", "\x1b[2;2H\x1b[31m\x1b7", "\x1b[?1047h\x1b[2;2H\x1b[32m\x1b7",
        "\x1b[?1049hxyz", "line1\r\nline2\r\nline3\r\nline4\r\nline5\r\nline6", "\x1b[999;999Hx", "\x1b[?1h\x1b[?6h\x1b[?7l\x1b[4h\x1b[20h\x1b[2;3r\x1b(0\x1b[7m\x1b7\x1b[?1049h\x1b[?25l",
    ];
    let mut v = vec![];
    for (cols, rows) in [(6usize, 4usize), (17, 3)] {
        for limit in [None, Some(0), Some(5)] {
            for s in setters {
                for p in partial {
                    let mut c = Case::new(cols, rows, limit).feed(s).feed(p);
                    c.tail = vec!["Xq\r\n\tY".into(), "\x1b[2;2H\x1b8Z\x1b[?1049lW\x1b[6n".into()];
                    v.push(c);
                }
            }
        }
    }
    // with a resize before the reset
    for s in setters {
        let mut c = Case::new(9, 4, None).feed(s).resize(17, 2).feed("\x1b[1");
        c.tail = vec!["\tA\tB\tC".into()];
        v.push(c);
    }
    v
}

pub fn run(env: &Env) -> PropRun {
    let j = |c: &Case, t: &mut Tally| judge("", c, t);
    let mut parts = vec![];
    let es = enum_states();
    parts.push(run_part(env, "enum-states", es.len(), true, "2 sizes x 3 limits x 18 state setters (each mode, margins, tabs, charsets, pens, saved contexts on both screens, alternate screen, scrollback, wrap-pending, everything at once) x 18 partial sequences (every non-ground parser state) + resize variants", &|i| es.get(i).cloned(), &j));
    // the scrollback configuration must survive the reset: large limits, a flood afterwards
    {
        let mut big: Vec<Case> = vec![];
        for (k, limit) in [Some(20_000usize), Some(100_001), Some(12_000), None].into_iter().enumerate() {
            for alt in [false, true] {
                let mut c = Case::new(3, 2, limit);
                c.calls.push(Call::FeedStr(format!("old\r\n{}", if alt { "\x1b[?1049h" } else { "" })));
                let n = limit.map(|l| l + l / 5 + 11).unwrap_or(30_000);
                let unit = ["\n", "ab\r\n", "x\n"][k % 3];
                c.tail = vec![unit.repeat(n / 2), unit.repeat(n / 2), "z\n".into(), "\x1b[?1049h\x1b[?1049l".into()];
                big.push(c);
            }
        }
        let jb = |c: &Case, t: &mut Tally| judge("", c, t);
        parts.push(run_part(env, "enum-large-limits", big.len(), true, "limits {12 000, 20 000, 100 001, unlimited} x RIS on the primary / alternate screen, then a flood of limit + 20 % lines in two calls: lines() must evolve like a fresh terminal's", &|i| big.get(i).cloned(), &jb));
    }
    parts.push(random_part(env, "random-histories", env.tier.scale(40_000, 40), &gen_case, &j));
    PropRun {
        parts,
        meta: EvidenceMeta {
            rule: "After the generated history (structured + raw, resizes, any limit, last feed cut anywhere) ESC c is fed and the terminal is compared with Vt::builder().size(current).scrollback_limit(same).build(): lines() and text() equal, visible state equal, equal under every probe chain (parser completion suffixes, pen, charsets, insert, auto-wrap, LNM, tabs, margins, origin, saved contexts of both screens, screen switches), equal (incl. lines()) after the generated continuation. Non-trivial = parser not in ground state, alternate screen active, or >= 4 kinds of functions in the history.".into(),
            assumptions: vec![],
            not_compared: vec!["Changes.lines of the RIS call itself".into(), "dump() text equality (a difference only triggers a behavioural comparison of the two dumps)".into()],
        },
        extra: serde_json::json!({}),
    }
}
