//! C04 — printing, auto-wrap, insert mode and charsets put characters where they belong.

use super::c05::margin_options;
use super::{product, radix, PropRun};
use crate::case::{Call, Case, Verdict};
use crate::engine::{random_part, run_part, Env, EvidenceMeta, Tally, Tier};
use crate::gen;
use crate::reffn::RefFn;
use crate::spec::{spec_judge, Class, SpecOpts};
use crate::src::Src;
use crate::walk::StepRec;

pub const SIZES: [(usize, usize); 7] = [(1, 1), (1, 2), (2, 1), (2, 2), (3, 2), (3, 3), (4, 3)];

fn ops(cols: usize, rows: usize, with_huge: bool) -> Vec<String> {
    let mut v: Vec<String> = vec![
        // ` and ~ are the two ends of the range the drawing set translates (and ` becomes
        // U+2666, whose low byte lies in that range again: REP must repeat it unchanged);
        // U+0160 and U+4F60 have a low byte inside the range and must never be translated
        "`".into(),
        "q".into(),
        "~".into(),
        "Š".into(),
        "你".into(),
        "\u{7f}".into(),
        "\x1b[b".into(),
        "\x1b[2b".into(),
        format!("\x1b[{}b", cols),
        format!("\x1b[{}b", cols * 2 + 1),
        "\x1b[?7h".into(),
        "\x1b[?7l".into(),
        "\x1b[4h".into(),
        "\x1b[4l".into(),
        "\x0e".into(),
        "\x0f".into(),
        "\r".into(),
        format!("\x1b[{};1H", rows),
    ];
    if with_huge {
        v.push("\x1b[65535b".into());
    }
    v
}

const CHARSETS: [&str; 4] = ["", "\x1b(0", "\x1b)0\x0e", "\x1b(0\x1b)B\x0e"];

fn setup(cols: usize, rows: usize, margins: Option<(usize, usize)>, cs: usize, autowrap: bool, insert: bool, row: usize, col: usize) -> String {
    let mut s = gen::fill_screen(cols, rows, false);
    if let Some((t, b)) = margins {
        s.push_str(&format!("\x1b[{};{}r", t, b));
    }
    s.push_str(&format!("\x1b[{};{}H", row + 1, col.min(cols - 1) + 1));
    if col >= cols {
        s.push('x');
    }
    s.push_str(CHARSETS[cs]);
    if !autowrap {
        s.push_str("\x1b[?7l");
    }
    if insert {
        s.push_str("\x1b[4h");
    }
    s
}

fn on_step(rec: &StepRec, t: &mut Tally) {
    let m = rec.m_pre;
    let cols = rec.pre.cols;
    let is_print = matches!(rec.f, RefFn::Print(_) | RefFn::Rep(_));
    if !is_print {
        return;
    }
    let pending = rec.pre.col >= cols;
    let last_col = rec.pre.col + 1 >= cols;
    let drawing = m.g[m.gl];
    if pending && m.autowrap {
        t.class("deferred_wrap");
    }
    if pending && !m.autowrap {
        t.class("pending_autowrap_off");
    }
    if last_col && !pending {
        t.class("print_in_last_column");
    }
    if m.insert {
        t.class("insert_mode");
    }
    if drawing {
        t.class("drawing_charset");
    }
    if rec.eff.scrolled.is_some() {
        t.class("wrap_scrolls_region");
    }
    if cols == 1 {
        t.class("one_column");
    }
    if let RefFn::Rep(n) = rec.f {
        if *n > 1 {
            t.class("rep_gt_1");
        }
    }
    if rec.pre.row > m.bot {
        t.class("below_bottom_margin");
    }
    if pending || last_col || m.insert || drawing || cols == 1 || matches!(rec.f, RefFn::Rep(n) if *n > 1) {
        t.nontrivial = true;
    }
}

pub fn judge(_part: &str, case: &Case, tally: &mut Tally) -> Verdict {
    let v = spec_judge(case, &SpecOpts { own: Class::Print, scrollback: true }, tally, &mut on_step);
    if v != Verdict::Pass {
        return v;
    }
    // "... no other cell, soft-wrap mark or mode changes": hidden modes through behaviour
    if case.nums.first() == Some(&1) {
        let pure = |f: &RefFn| matches!(f, RefFn::Print(_) | RefFn::Rep(_) | RefFn::Cr);
        if let Some(v) = crate::spec::mode_frame_check(case, &pure, tally) {
            return v;
        }
    }
    Verdict::Pass
}

pub fn gen_random(src: &mut Src, _i: usize) -> Case {
    use gen::*;
    burst_case(
        src,
        true,
        true,
        12,
        6,
        &[(CAT_TEXT, 12), (CAT_FILL, 4), (CAT_REP, 3), (CAT_CHARSET, 3), (CAT_ANSIMODE, 2), (CAT_DECMODE, 2), (CAT_C0, 2), (CAT_CUP, 2), (CAT_STBM, 1), (CAT_SGR, 1)],
        20,
    )
}

/// targeted: reach the wrap-pending position, resize (wider / narrower / same width other
/// height), then print — a wrap-pending flag surviving a width change would show
pub fn gen_pending_resize(src: &mut Src, _i: usize) -> Case {
    let (cols, rows) = gen::small_size(src);
    let mut s = String::new();
    if src.chance(1, 3) {
        s.push_str(&gen::fill_screen(cols, rows, src.chance(1, 2)));
    }
    let row = src.below(rows);
    s.push_str(&format!("\x1b[{};1H", row + 1));
    let k = if src.chance(1, 3) { 2 } else { 1 };
    for _ in 0..k * cols {
        s.push(*src.pick(&['m', 'n', ' ', 'o']));
    }
    let mut case = Case::new(cols, rows, None).feed(s);
    let (c2, r2) = match src.below(5) {
        0 => (cols + src.range(1, 3), rows),
        1 => (cols.saturating_sub(src.range(1, 2)).max(1), rows),
        2 => (cols, src.range(1, 7)),
        3 => (cols + 1, src.range(1, 7)),
        _ => (src.range(1, 12), src.range(1, 7)),
    };
    case.calls.push(Call::Resize(c2, r2));
    if src.chance(1, 3) {
        case.calls.push(Call::Resize(cols, rows));
    }
    let n = src.range(1, 4);
    let tail: String = (0..n).map(|_| *src.pick(&['X', 'q', 'Y'])).collect();
    case.calls.push(Call::FeedStr(tail));
    case
}

pub fn run(env: &Env) -> PropRun {
    let len = if env.tier == Tier::Thorough { 3 } else { 2 };
    struct Block {
        cols: usize,
        rows: usize,
        margins: Vec<Option<(usize, usize)>>,
        ops: Vec<String>,
        dims: Vec<usize>,
        total: usize,
    }
    let blocks: Vec<Block> = SIZES
        .iter()
        .map(|&(cols, rows)| {
            let margins = margin_options(rows);
            let ops = ops(cols, rows, len <= 2);
            let mut dims = vec![margins.len(), CHARSETS.len(), 2, 2, rows, cols + 1];
            for _ in 0..len {
                dims.push(ops.len());
            }
            let total = product(&dims);
            Block { cols, rows, margins, ops, dims, total }
        })
        .collect();
    let total: usize = blocks.iter().map(|b| b.total).sum();
    let make = |mut i: usize| -> Option<Case> {
        for b in &blocks {
            if i < b.total {
                let d = radix(i, &b.dims)?;
                let s = setup(b.cols, b.rows, b.margins[d[0]], d[1], d[2] == 0, d[3] == 1, d[4], d[5]);
                let mut case = Case::new(b.cols, b.rows, Some(0)).feed(s);
                for k in 0..len {
                    case.calls.push(Call::FeedStr(b.ops[d[6 + k]].clone()));
                }
                // mode-frame check on a sample (each costs ~50 replays; REP 65535 replays are slow)
                let heavy = (0..len).any(|k| b.ops[d[6 + k]].contains("65535"));
                case.nums = vec![(i % 24 == 0 && !heavy) as usize];
                return Some(case);
            }
            i -= b.total;
        }
        None
    };
    let j = |c: &Case, t: &mut Tally| judge("", c, t);
    let mut parts = vec![];
    parts.push(run_part(
        env,
        "enum-tiny",
        total,
        true,
        &format!("sizes {{1x1,1x2,2x1,2x2,3x2,3x3,4x3}} x margin pairs x 4 charset set-ups x auto-wrap on/off x insert on/off x every start cell incl. wrap-pending x all op sequences of length {} over {{print ` q ~ U+0160 U+4F60 DEL, REP -,2,cols,2cols+1(,65535), ?7h ?7l 4h 4l SO SI CR CUP-last-row}}", len),
        &make,
        &j,
    ));
    // origin mode on, regions with a top margin > 0 (needs >= 3 rows; 4 rows to wrap twice
    // inside a region): all op sequences of length 2 (3 in the thorough tier)
    struct OBlock {
        cols: usize,
        rows: usize,
        margins: Vec<Option<(usize, usize)>>,
        ops: Vec<String>,
        dims: Vec<usize>,
        total: usize,
    }
    let oblocks: Vec<OBlock> = [(2usize, 4usize), (3, 3)]
        .iter()
        .map(|&(cols, rows)| {
            let margins = margin_options(rows);
            let ops = ops(cols, rows, false);
            let mut dims = vec![margins.len(), 2, 2, rows, cols + 1];
            for _ in 0..len {
                dims.push(ops.len());
            }
            let total = product(&dims);
            OBlock { cols, rows, margins, ops, dims, total }
        })
        .collect();
    let ototal: usize = oblocks.iter().map(|b| b.total).sum();
    let omake = |mut i: usize| -> Option<Case> {
        for b in &oblocks {
            if i < b.total {
                let d = radix(i, &b.dims)?;
                // fill first (absolute addressing), then C05's set-up: origin on with full
                // margins, CUP to the start cell, DECSC, DECSTBM, DECRC (position and origin
                // mode restored), and a print in the last column for the wrap-pending start
                let mut s = gen::fill_screen(b.cols, b.rows, false);
                s.push_str(&super::c05::setup(b.cols, b.rows, b.margins[d[0]], true, d[3], d[4]));
                s.push_str(CHARSETS[d[1]]);
                if d[2] == 1 {
                    s.push_str("\x1b[4h");
                }
                let mut case = Case::new(b.cols, b.rows, Some(0)).feed(s);
                for k in 0..len {
                    case.calls.push(Call::FeedStr(b.ops[d[5 + k]].clone()));
                }
                return Some(case);
            }
            i -= b.total;
        }
        None
    };
    parts.push(run_part(env, "enum-origin-mode", ototal, true, &format!("sizes {{2x4,3x3}} with origin mode on x every margin pair x 2 charset set-ups x insert on/off x every start cell incl. wrap-pending x all op sequences of length {}", len), &omake, &j));
    {
        use gen::*;
        let gl = |src: &mut Src, _i: usize| large_case(src, true, &[(CAT_TEXT, 12), (CAT_FILL, 4), (CAT_REP, 4), (CAT_CHARSET, 2), (CAT_ANSIMODE, 2), (CAT_DECMODE, 2), (CAT_C0, 2), (CAT_CUP, 3), (CAT_STBM, 1)], 12);
        parts.push(random_part(env, "large-screens", env.tier.scale(250, 40), &gl, &j));
    }
    parts.push(random_part(env, "pending-resize", env.tier.scale(40_000, 30), &gen_pending_resize, &j));
    parts.push(random_part(env, "random-histories", env.tier.scale(60_000, 40), &gen_random, &j));
    PropRun {
        parts,
        meta: EvidenceMeta {
            rule: "Every Print/REP/SO/SI/designate/IRM/DECAWM step is compared (cells, pens, soft-wrap marks, cursor) with the one-step spec applied to the observed pre-state. Non-trivial = a print step at the last column, with a pending wrap, in insert mode, through the drawing set, REP > 1, or on a 1-column screen; distinct by case hash.".into(),
            assumptions: vec!["own transcription of the VT100 special-graphics table for 0x60-0x7E".into(), "mode tracker shared with C05-C07".into()],
            not_compared: vec!["wrap-pending on the last row below the scroll region is pinned to 'column 0, same row, no mark'".into()],
        },
        extra: serde_json::json!({"sequence_length": len}),
    }
}
