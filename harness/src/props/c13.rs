//! C13 — scrollback retention is bounded by the configured limit.

use super::PropRun;
use crate::case::{new_vt, Call, Case, Verdict};
use crate::engine::{random_part, run_part, Env, EvidenceMeta, Tally};
use crate::gen::{self, G};
use crate::src::Src;
use crate::walk::ScreenTracker;

pub const LIMITS: [usize; 12] = [0, 1, 2, 5, 9, 10, 11, 19, 20, 25, 100, 1000];

pub fn judge(_part: &str, case: &Case, tally: &mut Tally) -> Verdict {
    let Some(limit) = case.limit else { return Verdict::Invalid("C13 needs a finite scrollback limit".into()) };
    let drain = case.nums.first().copied().unwrap_or(0);
    let mut vt = new_vt(case.cols, case.rows, case.limit);
    let mut tr = ScreenTracker::new();
    let mut rows = case.rows;
    let slack = limit / 10;
    if limit < 10 {
        tally.class("limit_lt_10");
    } else {
        tally.class("limit_ge_10");
    }
    if limit == 0 {
        tally.class("limit_0");
    }
    for (i, call) in case.calls.iter().enumerate() {
        let before = vt.lines().len();
        let mut handed = 0usize;
        let what: String;
        match call {
            Call::FeedStr(s) => {
                tr.feed_str(s);
                let ch = vt.feed_str(s);
                match (drain + i) % 3 {
                    0 => handed = ch.scrollback.count(),
                    1 => {
                        let mut it = ch.scrollback;
                        handed = it.next().is_some() as usize;
                        drop(it);
                    }
                    _ => drop(ch),
                }
                what = format!("feed_str({:?})", crate::case::clip(s, 80));
            }
            Call::Resize(c, r) => {
                let ch = vt.resize(*c, *r);
                if (drain + i) % 2 == 0 {
                    handed = ch.scrollback.count();
                } else {
                    drop(ch);
                }
                rows = *r;
                what = format!("resize({},{})", c, r);
                tally.class("resize");
            }
            Call::Feed(s) => {
                // feed() neither returns Changes nor trims the primary buffer; the bound is
                // asserted after the next feed_str/resize
                tr.feed_str(s);
                for ch in s.chars() {
                    vt.feed(ch);
                }
                tally.class("feed_then_feed_str");
                continue;
            }
            _ => continue,
        }
        tally.steps += 1;
        let len = vt.lines().len();
        let bound = rows + limit + slack;
        if len > bound {
            return Verdict::fail("bound", format!("after call {} {}: lines().len() = {} > rows {} + L {} + floor(L/10) {} (was {} before the call)", i, what, len, rows, limit, slack, before));
        }
        if limit == 0 && len != rows {
            return Verdict::fail("limit0", format!("after call {} {}: lines().len() = {} but rows = {} with limit 0", i, what, len, rows));
        }
        if tr.alt == Some(true) {
            tally.class("alternate_active");
            if len != rows {
                return Verdict::fail("alt", format!("after call {} {}: the alternate screen is showing but lines().len() = {} != rows = {}", i, what, len, rows));
            }
        }
        if len < rows {
            return Verdict::fail("short", format!("after call {} {}: lines().len() = {} < rows = {}", i, what, len, rows));
        }
        if handed > 0 {
            tally.class("trimmed");
            tally.nontrivial = true;
        }
        if matches!(call, Call::Resize(..)) && len > before {
            tally.class("resize_grew_line_count");
            tally.nontrivial = true;
        }
        if tr.alt == Some(true) && matches!(call, Call::FeedStr(s) if s.contains('\n')) {
            tally.nontrivial = true;
        }
    }
    Verdict::Pass
}

fn scroll_heavy(src: &mut Src, g: &G) -> String {
    let mut s = String::new();
    for _ in 0..src.range(1, 6) {
        match src.below(9) {
            0 => {
                for _ in 0..src.range(1, 40) {
                    s.push('\n');
                }
            }
            1 => s.push_str(*src.pick(&["\x1b[65535S", "\x1b[S", "\x1b[5S", "\x1b[1000S"])),
            2 => {
                for k in 0..src.range(1, g.cols * (g.rows + 3)) {
                    s.push((b'a' + (k % 26) as u8) as char);
                }
            }
            3 => s.push_str(*src.pick(&["\x1b[H\x1b[M", "\x1b[H\x1b[9M", "\x1b[H\x1b[65535M"])),
            4 => {
                if g.rows >= 2 {
                    let b = src.range(1, g.rows - 1).max(1);
                    s.push_str(&format!("\x1b[1;{}r\x1b[{};1H", b + 1, b + 1));
                    for _ in 0..src.range(1, 12) {
                        s.push_str("x\n");
                    }
                }
            }
            5 => s.push_str(*src.pick(&["\x1b[?1049h", "\x1b[?1047h", "\x1b[?47h", "\x1b[?1049l", "\x1b[?1047l"])),
            6 => {
                for _ in 0..src.range(1, 15) {
                    s.push_str("line\r\n");
                }
            }
            _ => s.push_str(&gen::frag(src, g)),
        }
    }
    s
}

pub fn gen_case(src: &mut Src, _i: usize) -> Case {
    let (cols, rows) = if src.chance(1, 25) { (80, 24) } else { gen::small_size(src) };
    let limit = *src.pick(&LIMITS);
    let mut g = G::new(cols, rows).with_raw(2);
    g.ris = src.chance(1, 3);
    let mut case = Case::new(cols, rows, Some(limit));
    let n = src.range(1, 14);
    for _ in 0..n {
        match src.below(10) {
            0 | 1 => {
                let (c, r) = gen::resize_target(src, &g);
                g.cols = c;
                g.rows = r;
                case.calls.push(Call::Resize(c, r));
            }
            2 => {
                case.calls.push(Call::Feed(scroll_heavy(src, &g)));
                case.calls.push(Call::FeedStr(gen::frag(src, &g)));
            }
            3 | 4 => case.calls.push(Call::FeedStr(gen::input(src, &g, 8))),
            _ => case.calls.push(Call::FeedStr(scroll_heavy(src, &g))),
        }
    }
    case.nums = vec![src.below(3)];
    case
}

/// call boundaries anywhere: a scroll-heavy input with many strings (8-bit introducers and
/// terminators, so that whole chunks contain no ESC) is cut at random character positions -
/// inside strings, inside parameter lists - and the bound is checked after every piece
pub fn gen_split(src: &mut Src, _i: usize) -> Case {
    let (cols, rows) = gen::small_size(src);
    let limit = *src.pick(&LIMITS);
    let mut g = G::new(cols, rows).with_raw(1);
    g.ris = false;
    g.c1 = true;
    g.w[gen::CAT_INERT] = 8;
    g.w[gen::CAT_C0] = 10;
    g.w[gen::CAT_ALT] = 3;
    let mut all = String::new();
    for _ in 0..src.range(3, 12) {
        match src.below(4) {
            0 => all.push_str(&scroll_heavy(src, &g)),
            1 => {
                // a string opened and closed without ESC, scrolling output in between
                all.push_str(*src.pick(&["\u{9d}", "\u{90}", "\u{9f}", "\u{98}", "\u{9e}"]));
                all.push_str(*src.pick(&["0;title", "q#1;2", "payload payload", ""]));
                all.push_str(*src.pick(&["\u{9c}", "\x07", "\x18", "\u{85}", "\u{84}"]));
                all.push_str(&"\n".repeat(src.range(1, rows + 3)));
            }
            _ => all.push_str(&gen::input(src, &g, 4)),
        }
    }
    let chars: Vec<char> = all.chars().collect();
    let mut case = Case::new(cols, rows, Some(limit));
    let mut i = 0;
    while i < chars.len() {
        let k = src.range(1, 12).min(chars.len() - i);
        case.calls.push(Call::FeedStr(chars[i..i + k].iter().collect()));
        i += k;
    }
    case.nums = vec![src.below(3)];
    case
}

/// long sessions: hundreds of calls, thousands of scrolled lines, limits 100 / 1000 / 255 / 256
pub fn gen_long_session(src: &mut Src, _i: usize) -> Case {
    let (cols, rows) = if src.chance(1, 3) { (80, 24) } else { gen::small_size(src) };
    let limit = *src.pick(&[0usize, 9, 10, 100, 255, 256, 1000, 1023, 1024]);
    let mut g = G::new(cols, rows);
    g.ris = src.chance(1, 5);
    let mut case = Case::new(cols, rows, Some(limit));
    let n = src.range(150, 500);
    for _ in 0..n {
        match src.below(40) {
            0 => {
                let (c, r) = gen::resize_target(src, &g);
                g.cols = c;
                g.rows = r;
                case.calls.push(Call::Resize(c, r));
            }
            1 => case.calls.push(Call::Feed(scroll_heavy(src, &g))),
            2 | 3 => case.calls.push(Call::FeedStr(gen::frag(src, &g))),
            _ => {
                let k = src.range(1, 12);
                let mut s = String::new();
                for j in 0..k {
                    s.push_str(&format!("line {}\r\n", j));
                }
                case.calls.push(Call::FeedStr(s));
            }
        }
    }
    case.nums = vec![src.below(3)];
    case
}

/// bulk: one call leaves a backlog of thousands of lines (beyond 1024/4096/8192/65535-cell REP)
pub fn gen_bulk(src: &mut Src, _i: usize) -> Case {
    let (cols, rows) = if src.chance(1, 3) { (*src.pick(&[80usize, 200]), 24) } else { gen::small_size(src) };
    let limit = *src.pick(&LIMITS);
    let mut case = Case::new(cols, rows, Some(limit));
    let n = src.range(1, 3);
    for _ in 0..n {
        let lines = *src.pick(&[1025usize, 4097, 8193, 9000, 20000]);
        let mut s = String::new();
        if src.chance(1, 4) {
            s.push_str("\x1b[?1049h");
        }
        match src.below(4) {
            0 => s.push_str(&"\n".repeat(lines + rows)),
            1 => {
                for k in 0..lines {
                    s.push_str(&format!("{}\r\n", k % 10));
                }
            }
            2 => {
                for k in 0..lines * cols.min(12) {
                    s.push((b'a' + (k % 26) as u8) as char);
                }
            }
            _ => {
                // fill wide rows, then narrow: every row multiplies
                for k in 0..(lines / cols.max(1)).max(150) {
                    for j in 0..cols * 2 - 1 {
                        s.push((b'a' + ((k + j) % 26) as u8) as char);
                    }
                    s.push_str("\r\n");
                }
            }
        }
        case.calls.push(Call::FeedStr(s));
        if src.chance(1, 2) {
            case.calls.push(Call::Resize(src.range(1, 3), rows));
            case.calls.push(Call::Resize(cols, rows));
        }
        case.calls.push(Call::FeedStr("x".into()));
    }
    case.nums = vec![src.below(3)];
    case
}

/// wide content then narrowing (multiplies rows), for every limit
fn enum_narrowing() -> Vec<Case> {
    let mut v = vec![];
    for limit in LIMITS {
        for (cols, rows) in [(20usize, 3usize), (12, 2), (9, 5)] {
            for lines in [1usize, 5, 30] {
                for to in [1usize, 2, 3, 7] {
                    for alt in [false, true] {
                        let mut s = String::new();
                        for k in 0..lines {
                            for j in 0..cols * 2 - 1 {
                                s.push((b'a' + ((k + j) % 26) as u8) as char);
                            }
                            s.push_str("\r\n");
                        }
                        let mut c = Case::new(cols, rows, Some(limit)).feed(s);
                        if alt {
                            c.calls.push(Call::FeedStr("\x1b[?1049h\n\n\n\n\n\n\n\n".into()));
                        }
                        c.calls.push(Call::Resize(to, rows));
                        c.calls.push(Call::Resize(to, rows + 3));
                        if alt {
                            c.calls.push(Call::FeedStr("\x1b[?1049l".into()));
                        }
                        c.calls.push(Call::Resize(cols, 1));
                        c.calls.push(Call::FeedStr("\n".into()));
                        for drain in 0..3 {
                            let mut cc = c.clone();
                            cc.nums = vec![drain];
                            v.push(cc);
                        }
                    }
                }
            }
        }
    }
    v
}

pub fn run(env: &Env) -> PropRun {
    let j = |c: &Case, t: &mut Tally| judge("", c, t);
    let mut parts = vec![];
    let en = enum_narrowing();
    parts.push(run_part(env, "enum-narrowing", en.len(), true, "12 limits x 3 sizes x {1,5,30} long lines x narrowing to {1,2,3,7} columns x with/without an alternate-screen excursion x 3 drain patterns", &|i| en.get(i).cloned(), &j));
    parts.push(random_part(env, "split-anywhere", env.tier.scale(40_000, 30), &gen_split, &j));
    parts.push(random_part(env, "bulk-backlog", env.tier.scale(160, 20), &gen_bulk, &j));
    // magnitudes of the limit itself: 4096 ... 250 000 lines, flooded past limit + 10 % in one
    // call, in several calls, and one line per call for the last stretch
    {
        let big: [usize; 8] = [4096, 10_000, 65_535, 65_536, 100_000, 100_001, 131_072, 250_000];
        let mut cases: Vec<Case> = vec![];
        for (k, l) in big.iter().enumerate() {
            let (cols, rows) = [(1usize, 1usize), (2, 2), (4, 3), (1, 5)][k % 4];
            let total = l + l / 10 + l / 20 + 7;
            let mut c = Case::new(cols, rows, Some(*l));
            match k % 3 {
                0 => c.calls.push(Call::FeedStr("\n".repeat(total))),
                1 => {
                    for _ in 0..4 {
                        c.calls.push(Call::FeedStr("y\r\n".repeat(total / 4 + 1)));
                    }
                }
                _ => {
                    c.calls.push(Call::FeedStr("\n".repeat(l + l / 10 - 3)));
                    for _ in 0..40 {
                        c.calls.push(Call::FeedStr("z\n".into()));
                    }
                }
            }
            c.calls.push(Call::Resize(cols + 1, rows));
            c.calls.push(Call::FeedStr("\x1b[?1049h\x1b[?1049l\n".into()));
            c.nums = vec![k % 3];
            cases.push(c);
        }
        parts.push(run_part(env, "enum-large-limits", cases.len(), true, "limits {4096, 10 000, 65 535, 65 536, 100 000, 100 001, 131 072, 250 000} on tiny screens, flooded past limit + 15 % in one call / four calls / line by line, then a resize and an alternate-screen round trip", &|i| cases.get(i).cloned(), &j));
    }
    parts.push(random_part(env, "long-sessions", env.tier.scale(400, 30), &gen_long_session, &j));
    parts.push(random_part(env, "random-histories", env.tier.scale(120_000, 30), &gen_case, &j));
    PropRun {
        parts,
        meta: EvidenceMeta {
            rule: "After every feed_str/resize call has returned and its Changes has been fully consumed, partly consumed or dropped untouched (rotating pattern): rows <= lines().len() <= rows + L + floor(L/10); == rows when L = 0; == rows while the reference parser's tracker says the alternate screen is showing. Limits {0,1,2,5,9,10,11,19,20,25,100,1000}. Non-trivial = a call that handed out scrollback lines (trimming happened), a resize that increased the line count, or line feeds on the alternate screen.".into(),
            assumptions: vec!["which screen is showing is tracked with the reference parser; after a sequence outside the specified domain that might be a mode switch the alternate-screen clause is skipped until the next in-domain switch".into()],
            not_compared: vec!["lines().len() directly after feed() (the statement speaks of feed_str and resize)".into()],
        },
        extra: serde_json::json!({}),
    }
}
