//! C08 — SGR attributes and colours reach the printed cells unchanged.

use super::PropRun;
use crate::case::{Call, Case, Verdict};
use crate::engine::{random_part, run_part, Env, EvidenceMeta, Tally};
use crate::gen::{self, G};
use crate::model::PenSpec;
use crate::reffn::{RefFn, SgrItem};
use crate::src::Src;
use crate::walk::{Event, WalkEnd, Walker};

/// pen of a cell printed next and of the blanks produced next by every blank-producing
/// operation (each on a fresh replica): EL, ED, ECH, ICH, DCH, IL, DL, SU, SD, LF-scroll, RI-scroll
fn observed_pens(wk: &Walker) -> Vec<(PenSpec, &'static str)> {
    let (cols, rows) = (wk.cols, wk.rows);
    let top = wk.modes.top.min(rows - 1);
    let bot = wk.modes.bot.min(rows - 1);
    let mut out = vec![];
    // (with origin mode on, CUP 1;1 lands on the top margin row: always read at cursor().row)
    let mut a = wk.replica();
    let _ = a.feed_str("\x18\x1b[1;1HX");
    out.push((PenSpec::of(a.view()[a.cursor().row][0].pen()), "printed cell"));
    let at_cursor_row = |probe: &str, col: usize, what: &'static str, out: &mut Vec<(PenSpec, &'static str)>| {
        let mut v = wk.replica();
        let _ = v.feed_str(probe);
        let r = v.cursor().row;
        out.push((PenSpec::of(v.view()[r][col.min(cols - 1)].pen()), what));
    };
    // every way of printing a cell: insert mode, after a deferred wrap, overwriting the last
    // column with auto-wrap off, through the DEC graphics charset, and REP (in replace and
    // insert mode) next to a cell that was printed with a different pen (the replica's
    // pen is parked in the saved context while that neighbour is printed)
    at_cursor_row("\x18\x1b[4h\x1b[1;1HX", 0, "cell printed in insert mode", &mut out);
    at_cursor_row("\x18\x1b(0\x1b[1;1Hq", 0, "cell printed through the DEC graphics charset", &mut out);
    at_cursor_row(&format!("\x18\x1b[?7h\x1b[1;{}HXY", cols), 0, "cell printed after a deferred wrap", &mut out);
    at_cursor_row(&format!("\x18\x1b[?7l\x1b[1;{}HXY", cols), cols - 1, "cell overwritten in the last column with auto-wrap off", &mut out);
    if cols >= 2 {
        at_cursor_row("\x18\x1b[4l\x1b7\x1b[0;7m\x1b[1;1HX\x1b8\x1b[1;2H\x1b[b", 1, "cell written by REP", &mut out);
    }
    if cols >= 4 {
        at_cursor_row("\x18\x1b[4h\x1b7\x1b[0;7m\x1b[1;1HX\x1b8\x1b[1;2H\x1b[b", 1, "cell written by REP in insert mode", &mut out);
        at_cursor_row("\x18\x1b[4h\x1b7\x1b[0;7m\x1b[1;1HX\x1b8\x1b[1;2H\x1b[2b", 2, "second cell written by REP 2 in insert mode", &mut out);
    }
    at_cursor_row("\x18\x1b[1;1H\x1b[2K", cols - 1, "cell blanked by EL 2", &mut out);
    at_cursor_row("\x18\x1b[1;1H\x1b[K", 0, "cell blanked by EL 0", &mut out);
    at_cursor_row("\x18\x1b[1;1H\x1b[1K", 0, "cell blanked by EL 1", &mut out);
    at_cursor_row("\x18\x1b[1;1H\x1b[J", cols - 1, "cell blanked by ED 0", &mut out);
    at_cursor_row("\x18\x1b[1;1H\x1b[2J", 0, "cell blanked by ED 2", &mut out);
    at_cursor_row("\x18\x1b[1;1H\x1b[X", 0, "cell blanked by ECH", &mut out);
    at_cursor_row("\x18\x1b[1;1H\x1b[@", 0, "cell inserted by ICH", &mut out);
    at_cursor_row("\x18\x1b[1;1H\x1b[P", cols - 1, "cell vacated by DCH", &mut out);
    // row-level blanks: the tracker's margins name rows inside the scroll region
    let row_probe = |probe: String, row: usize, what: &'static str, out: &mut Vec<(PenSpec, &'static str)>| {
        let mut v = wk.replica();
        let _ = v.feed_str(&probe);
        out.push((PenSpec::of(v.view()[row].cells()[0].pen()), what));
    };
    row_probe(format!("\x18\x1b[{}S", rows), top, "row scrolled in by SU (whole region)", &mut out);
    row_probe("\x18\x1b[S".to_string(), bot, "row scrolled in by SU 1", &mut out);
    row_probe("\x18\x1b[T".to_string(), top, "row scrolled in by SD 1", &mut out);
    // IL / DL / LF / RI need the cursor inside the region: CUP 1;1 with origin mode toggled
    // off would destroy state, so address the row relative to the tracker's origin mode
    let cup_top = if wk.modes.origin { "\x1b[1;1H".to_string() } else { format!("\x1b[{};1H", top + 1) };
    let cup_bot = if wk.modes.origin { "\x1b[999;1H".to_string() } else { format!("\x1b[{};1H", bot + 1) };
    row_probe(format!("\x18{}\x1b[L", cup_top), top, "row inserted by IL", &mut out);
    row_probe(format!("\x18{}\x1b[M", cup_top), bot, "row vacated by DL", &mut out);
    row_probe(format!("\x18{}\n", cup_bot), bot, "row scrolled in by LF on the bottom margin", &mut out);
    row_probe(format!("\x18{}\x1bM", cup_top), top, "row scrolled in by RI on the top margin", &mut out);
    out
}

pub fn judge(_part: &str, case: &Case, tally: &mut Tally) -> Verdict {
    let mut w = Walker::new(case);
    let mut dirty = false;
    let mut items_in_call = 0usize;
    let mut interesting = false;
    let end = w.walk(case, &mut |wk, ev| match ev {
        Event::Step(rec) => {
            if let RefFn::Sgr(items) = rec.f {
                dirty = true;
                items_in_call += items.len();
                let has_color = items.iter().any(|i| matches!(i, SgrItem::Fg(_) | SgrItem::Bg(_)));
                let reset_mid = items.iter().enumerate().any(|(k, i)| *i == SgrItem::Reset && k > 0);
                if has_color {
                    tally.class("colour_item");
                }
                if reset_mid {
                    tally.class("reset_in_the_middle");
                }
                if items.len() >= 2 && (has_color || reset_mid) {
                    interesting = true;
                }
            }
            if matches!(rec.f, RefFn::Decrc | RefFn::Scorc | RefFn::Decstr | RefFn::Ris | RefFn::Decrst(_)) {
                dirty = true;
            }
            None
        }
        Event::CallEnd { call_idx } => {
            if dirty {
                dirty = false;
                let want = wk.modes.pen;
                tally.steps += 1;
                for (got, what) in observed_pens(wk) {
                    if got != want {
                        return Some(Verdict::fail("pen", format!("after call {}: {} reports pen {:?}, the fold of the SGR parameters received gives {:?}", call_idx, what, got, want)));
                    }
                }
            }
            None
        }
        _ => None,
    });
    if interesting {
        tally.nontrivial = true;
    }
    let _ = items_in_call;
    match end {
        WalkEnd::Done => Verdict::Pass,
        WalkEnd::Stopped(v) => v,
    }
}

pub fn gen_case(src: &mut Src, _i: usize) -> Case {
    let (cols, rows) = gen::small_size(src);
    let g = G::new(cols, rows);
    let mut case = Case::new(cols, rows, None);
    if src.chance(1, 3) {
        let mut gh = G::new(cols, rows).no_ris();
        gh.w[gen::CAT_SGR] = 10;
        case.calls.push(Call::FeedStr(gen::input(src, &gh, 8)));
    }
    let n = src.range(1, 6);
    for _ in 0..n {
        let mut s = String::new();
        for _ in 0..src.range(1, 3) {
            s.push_str(&sgr_rich(src, &g));
        }
        case.calls.push(Call::FeedStr(s));
    }
    case
}

/// one SGR control with 0-12 items incl. unknown codes, every colour spelling
fn sgr_rich(src: &mut Src, g: &G) -> String {
    let n = src.range(0, 12);
    let mut items: Vec<String> = vec![];
    let mut params = 0;
    for _ in 0..n {
        let (s, cost) = match src.below(12) {
            0 | 1 | 2 => {
                let base = *src.pick(&[38usize, 48]);
                let comp = |src: &mut Src| *src.pick(&[0usize, 1, 127, 128, 254, 255]);
                let idx = src.below(256);
                let (r, gg, b) = (comp(src), comp(src), comp(src));
                match src.below(5) {
                    0 => (format!("{};5;{}", base, idx), 3),
                    1 => (format!("{}:5:{}", base, idx), 1),
                    2 => (format!("{};2;{};{};{}", base, r, gg, b), 5),
                    3 => (format!("{}:2:{}:{}:{}", base, r, gg, b), 1),
                    _ => (format!("{}:2::{}:{}:{}", base, r, gg, b), 1),
                }
            }
            3 => {
                // an unknown code, sometimes directly in front of parameters that would
                // be colour arguments if the unknown code were mistaken for 38/48
                let u = gen::sgr_unknown(src);
                match src.below(4) {
                    0 => {
                        // (38 / 48 as a bare follower would be a malformed colour introducer)
                        let n = match src.below(256) {
                            38 | 48 => 7,
                            n => n,
                        };
                        (format!("{};5;{}", u, n), 3)
                    }
                    1 => (format!("{};2;{};{};{}", u, src.below(10), src.below(10), src.below(10)), 5),
                    _ => (u.to_string(), 1),
                }
            }
            4 => (if src.chance(1, 2) { String::new() } else { "0".into() }, 1),
            5 => (src.pick(&[30usize, 31, 32, 33, 34, 35, 36, 37, 90, 91, 92, 93, 94, 95, 96, 97, 40, 41, 42, 43, 44, 45, 46, 47, 100, 101, 102, 103, 104, 105, 106, 107]).to_string(), 1),
            _ => (src.pick(&[1usize, 2, 3, 4, 5, 7, 9, 21, 22, 23, 24, 25, 27, 29, 39, 49]).to_string(), 1),
        };
        if params + cost > 32 {
            break;
        }
        params += cost;
        items.push(s);
    }
    format!("{}{}m", gen::csi(src, g), items.join(";"))
}

/// all 3 x 2^5 attribute combinations x each single item (independence), all 256 indices,
/// an RGB lattice, in every spelling, for both grounds
fn enum_cases() -> Vec<Case> {
    let mut v = vec![];
    let singles: Vec<String> = {
        let mut s: Vec<String> = vec![];
        for c in [0usize, 1, 2, 3, 4, 5, 7, 9, 21, 22, 23, 24, 25, 27, 29, 30, 37, 39, 40, 47, 49, 90, 97, 100, 107, 6, 8, 26, 28, 50, 99, 108, 65535] {
            s.push(c.to_string());
        }
        s.push(String::new());
        s.push("38;5;123".into());
        s.push("48:5:77".into());
        s.push("38;2;1;2;3".into());
        s.push("48:2:4:5:6".into());
        s.push("38:2::7:8:9".into());
        s
    };
    for intensity in ["", "1", "2"] {
        for bits in 0..32u32 {
            let mut base: Vec<&str> = vec![];
            if !intensity.is_empty() {
                base.push(intensity);
            }
            for (k, code) in ["3", "4", "5", "7", "9"].iter().enumerate() {
                if (bits >> k) & 1 == 1 {
                    base.push(code);
                }
            }
            let pre = if base.is_empty() { String::new() } else { format!("\x1b[{}m", base.join(";")) };
            for it in &singles {
                v.push(Case::new(4, 2, None).feed(format!("\x1b[35;46m{}", pre)).feed(format!("\x1b[{}m", it)));
            }
        }
    }
    for g in [38usize, 48] {
        for n in 0..256usize {
            v.push(Case::new(3, 2, None).feed(format!("\x1b[1;{};5;{};4m", g, n)));
            v.push(Case::new(3, 2, None).feed(format!("\u{9b}{}:5:{}m", g, n)));
        }
        for r in [0usize, 1, 127, 128, 254, 255] {
            for gg in [0usize, 1, 127, 128, 254, 255] {
                for b in [0usize, 1, 127, 128, 254, 255] {
                    v.push(Case::new(3, 2, None).feed(format!("\x1b[{};2;{};{};{}m", g, r, gg, b)));
                    v.push(Case::new(3, 2, None).feed(format!("\x1b[7;{}:2:{}:{}:{};9m", g, r, gg, b)));
                    v.push(Case::new(3, 2, None).feed(format!("\u{9b}{}:2::{}:{}:{}m", g, r, gg, b)));
                }
            }
        }
    }
    // every unknown single-part code below 121 (and a few large ones): alone, between
    // neighbours, and directly in front of parameters that look like colour arguments
    for u in (0..=120usize).chain([200, 255, 256, 1000, 65535]) {
        if !gen::sgr_is_unknown(u) {
            continue;
        }
        for body in [format!("{}", u), format!("1;{};4", u), format!("{};5;1", u), format!("{};2;3;4;7", u), format!("3;{};5;9;9", u), format!("{};{}", u, u), format!("32;{};2;1;2;3;44", u)] {
            v.push(Case::new(4, 2, None).feed(format!("\x1b[{}m", body)));
            v.push(Case::new(4, 2, None).feed("\x1b[35;46;7m").feed(format!("\u{9b}{}m", body)));
        }
    }
    // one item per control vs many per control must agree (same fold)
    v.push(Case::new(5, 2, None).feed("\x1b[1m\x1b[31m\x1b[4m\x1b[48;5;9m\x1b[22m"));
    v.push(Case::new(5, 2, None).feed("\x1b[1;31;4;48;5;9;22m"));
    v
}

pub fn run(env: &Env) -> PropRun {
    let j = |c: &Case, t: &mut Tally| judge("", c, t);
    let mut parts = vec![];
    let ec = enum_cases();
    parts.push(run_part(env, "enum-attributes-colours", ec.len(), true, "all 3 x 2^5 attribute combinations x 39 single items (every implemented code, unknown codes, 5 colour spellings); all 256 indexed colours x 2 grounds x 2 spellings; 6^3 RGB lattice x 2 grounds x 3 spellings", &|i| ec.get(i).cloned(), &j));
    parts.push(random_part(env, "random-sgr-sequences", env.tier.scale(120_000, 30), &gen_case, &j));
    PropRun {
        parts,
        meta: EvidenceMeta {
            rule: "The pen model is the left fold of the SGR items decoded by the reference parser per the statement (bold/faint exclusive, 21/22 clear both, unknown codes skipped). After every call containing an SGR the model pen must equal, through the public accessors, the pen of a cell printed next and of the blanks produced next by EL 0/1/2, ED 0/2, ECH, ICH, DCH, IL, DL, SU (1 and whole region), SD, LF on the bottom margin and RI on the top margin - each on a fresh replica. Non-trivial = a control with >= 2 items including a colour form or a reset in the middle.".into(),
            assumptions: vec!["only well-formed SGR parameters are generated (malformed colour introducers are C01's business)".into()],
            not_compared: vec!["malformed SGR 38/48 forms".into()],
        },
        extra: serde_json::json!({}),
    }
}
