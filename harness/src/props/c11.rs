//! C11 — dump() reproduces the terminal for all future input.

use super::PropRun;
use crate::case::{Call, Case, Verdict};
use crate::engine::{random_part, run_part, tolerated, Env, EvidenceMeta, Tally};
use crate::gen::{self, G};
use crate::observe::{equivalent, equivalent_after, Recipe};
use crate::reffn::RefFn;
use crate::refparser::St;
use crate::src::Src;
use crate::walk::{functions_of, ScreenTracker};

fn recipe_of(case: &Case, calls: Vec<Call>) -> Recipe {
    Recipe { cols: case.cols, rows: case.rows, limit: case.limit, calls }
}

/// K2 signature (semantic, on replicas): (a) origin mode is on and the cursor is parked
/// outside the scroll region — the cursor row is outside the interval of rows that
/// absolute addressing can reach — and (b) restoring the saved cursor context (CSI u,
/// which is how dump() repositions in this state) leaves origin mode or auto-wrap OFF.
/// dump() executes that step in a terminal it has just put into origin mode with
/// auto-wrap still on, re-prints the last column afterwards when the cursor is
/// wrap-pending, and only then switches auto-wrap off if needed; a saved context with
/// either mode off breaks that (it "disagrees with the current modes" the dump relies
/// on). With (a) and a saved context that has both modes on, dump() is expected to work
/// and a failure is reported (unless it is K3).
pub fn k2_signature(r: &Recipe) -> bool {
    let mut v = r.build();
    let _ = v.feed_str("\x18");
    let row = v.cursor().row;
    let _ = v.feed_str("\x1b[1;1H");
    let r1 = v.cursor().row;
    let _ = v.feed_str("\x1b[9999;1H");
    let r2 = v.cursor().row;
    if !(row < r1 || row > r2) {
        return false;
    }
    let restored = modes_readout(r, "\x18\x1b[u");
    !(restored.1 && restored.2)
}

/// K3 signature (semantic, on replicas): origin mode is on, the cursor is parked outside
/// the scroll region, and the way dump() repositions in that state — restore the saved
/// cursor (CSI u), then CUB/CUF and CUU/CUD by the distance to the target — cannot reach the
/// cursor's position, because a vertical move that starts inside the region stops at its
/// margin (the saved position lies in the region or on its other side).
pub fn k3_signature(r: &Recipe) -> bool {
    let mut v = r.build();
    let (cols, _) = v.size();
    let _ = v.feed_str("\x18");
    let target = (v.cursor().col.min(cols - 1), v.cursor().row);
    let _ = v.feed_str("\x1b[1;1H");
    let r1 = v.cursor().row;
    let _ = v.feed_str("\x1b[9999;1H");
    let r2 = v.cursor().row;
    if !(target.1 < r1 || target.1 > r2) {
        return false;
    }
    let mut w = r.build();
    let _ = w.feed_str("\x18\x1b[u");
    let (sc, sr) = (w.cursor().col.min(cols - 1), w.cursor().row);
    if target.0 < sc {
        let _ = w.feed_str(&format!("\x1b[{}D", sc - target.0));
    } else if target.0 > sc {
        let _ = w.feed_str(&format!("\x1b[{}C", target.0 - sc));
    }
    if target.1 < sr {
        let _ = w.feed_str(&format!("\x1b[{}A", sr - target.1));
    } else if target.1 > sr {
        let _ = w.feed_str(&format!("\x1b[{}B", target.1 - sr));
    }
    (w.cursor().col.min(cols - 1), w.cursor().row) != target
}

/// behavioural read-out of (pen, auto-wrap, origin mode) after `prefix`
fn modes_readout(r: &Recipe, prefix: &str) -> (crate::model::PenSpec, bool, bool) {
    let mut p = r.build();
    let _ = p.feed_str(prefix);
    let _ = p.feed_str("\rX");
    let pc = p.cursor();
    let pen = crate::model::PenSpec::of(p.view()[pc.row][0].pen());
    let mut w = r.build();
    let (cols, rows) = w.size();
    let _ = w.feed_str(prefix);
    let _ = w.feed_str("\x1b[4l\r");
    let _ = w.feed_str(&"X".repeat(cols));
    let autowrap = w.cursor().col == cols;
    let mut o = r.build();
    let _ = o.feed_str(prefix);
    let _ = o.feed_str(&format!("\x1b[2;{}r\x1b[1;1H", rows));
    let origin = o.cursor().row == 1;
    (pen, autowrap, origin)
}

/// K1 signature: at dump time the alternate screen is (or may be) showing and a resize was
/// executed during this excursion, so the parked primary screen is stale. A resize during
/// an excursion that has ended (the primary is brought up to date when it is shown again)
/// is not the finding and is judged normally.
pub fn k1_signature(calls: &[Call]) -> bool {
    k1_scan(calls).1
}

/// (a resize happened during some excursion, the parked primary is stale at the end)
fn k1_scan(calls: &[Call]) -> (bool, bool) {
    let mut tr = ScreenTracker::new();
    let mut stale = false;
    let mut any = false;
    for c in calls {
        match c {
            Call::FeedStr(s) | Call::Feed(s) => {
                for ch in s.chars() {
                    tr.feed(ch);
                    if tr.alt == Some(false) {
                        stale = false;
                    }
                }
            }
            Call::Resize(..) => {
                if tr.alt != Some(false) {
                    stale = true;
                    any = true;
                }
            }
            _ => {}
        }
    }
    (any, stale)
}

fn hidden_components(calls: &[Call], orig: &avt::Vt) -> Vec<&'static str> {
    let mut all = String::new();
    for c in calls {
        if let Call::FeedStr(s) | Call::Feed(s) = c {
            all.push_str(s);
        }
    }
    let (fs, _, st) = functions_of(&all);
    let mut v: Vec<&'static str> = vec![];
    let mut add = |x: &'static str| {
        if !v.contains(&x) {
            v.push(x);
        }
    };
    for f in &fs {
        match f {
            RefFn::Hts | RefFn::Ctc(_) | RefFn::Tbc(_) => add("tabs"),
            RefFn::Decstbm(..) => add("margins"),
            RefFn::Decsc | RefFn::Scosc => add("saved_ctx"),
            RefFn::Gzd4(true) | RefFn::G1d4(true) | RefFn::So => add("charset"),
            RefFn::Sm(ms) => {
                if ms.contains(&4) {
                    add("insert");
                }
                if ms.contains(&20) {
                    add("lnm");
                }
            }
            RefFn::Decset(ms) => {
                if ms.contains(&6) {
                    add("origin");
                }
                if ms.contains(&1) {
                    add("cursor_keys");
                }
                if ms.contains(&1047) || ms.contains(&1049) {
                    add("alt_screen");
                }
                if ms.contains(&1048) || ms.contains(&1049) {
                    add("saved_ctx");
                }
            }
            RefFn::Decrst(ms) => {
                if ms.contains(&7) {
                    add("autowrap_off");
                }
                if ms.contains(&25) {
                    add("hidden_cursor");
                }
            }
            RefFn::Sgr(items) => {
                if !items.is_empty() {
                    add("pen");
                }
            }
            _ => {}
        }
    }
    if st != St::Ground {
        add("parser_mid_sequence");
    }
    if orig.cursor().col >= orig.size().0 {
        add("wrap_pending");
    }
    v
}

fn judge_one(case: &Case, calls: Vec<Call>, tail: &[String], tally: &mut Tally) -> Verdict {
    let (resized_on_alt, stale) = k1_scan(&calls);
    if stale {
        if tolerated("K1") {
            tally.excluded += 1;
            return Verdict::Pass;
        }
    } else if resized_on_alt {
        tally.class("resize_during_finished_excursion");
    }
    let orig_r = recipe_of(case, calls.clone());
    let orig = orig_r.build();
    let dump = orig.dump();
    let (cols, rows) = orig.size();
    let rest_r = Recipe { cols, rows, limit: None, calls: vec![Call::FeedStr(dump.clone())] };
    tally.steps += 1;
    let comps = hidden_components(&calls, &orig);
    for c in &comps {
        tally.class(c);
    }
    if comps.len() >= 2 {
        tally.nontrivial = true;
    }
    let mut failure: Option<(String, String)> = None;
    if let Err(d) = equivalent(&orig_r, &rest_r, true) {
        let lvl = if d.after.is_empty() { "immediate" } else { "probe" };
        failure = Some((lvl.to_string(), format!("original and dump-restored terminal differ ({}): {} after probes {:?}", lvl, d.what, d.after)));
    }
    if failure.is_none() && !tail.is_empty() {
        if let Err(d) = equivalent_after(&orig_r, &rest_r, tail) {
            failure = Some(("continuation".to_string(), format!("original and dump-restored terminal differ after continuation {:?}: {}", d.after, d.what)));
        }
    }
    if failure.is_none() {
        // dump of the restored terminal vs dump of the original: only a trigger for more
        // probing (the text of dump() is never judged by itself)
        let rest = rest_r.build();
        if rest.dump() != dump {
            tally.class("dump_of_dump_differs");
            // second generation: restored-from-restored must still be equivalent to the original
            let rest2 = Recipe { cols, rows, limit: None, calls: vec![Call::FeedStr(rest.dump())] };
            if let Err(d) = equivalent(&orig_r, &rest2, true) {
                failure = Some(("second-generation".to_string(), format!("a terminal restored from the dump of the restored terminal differs from the original: {} after probes {:?}", d.what, d.after)));
            }
        }
    }
    match failure {
        None => Verdict::Pass,
        Some((sig, msg)) => {
            if tolerated("K2") && k2_signature(&orig_r) {
                tally.known_hits.push("K2".into());
                return Verdict::Pass;
            }
            if tolerated("K3") && k3_signature(&orig_r) {
                tally.known_hits.push("K3".into());
                return Verdict::Pass;
            }
            Verdict::fail(sig, format!("{}; dump = {:?}", msg, crate::case::clip(&dump, 300)))
        }
    }
}

pub fn judge(_part: &str, case: &Case, tally: &mut Tally) -> Verdict {
    let calls: Vec<Call> = case.calls.iter().filter(|c| matches!(c, Call::FeedStr(_) | Call::Feed(_) | Call::Resize(..))).cloned().collect();
    let all_cuts = case.nums.first().copied().unwrap_or(0) == 1;
    if all_cuts {
        // every cut position of the last feed: prefix goes into the history, the remainder
        // becomes the first continuation
        if let Some(Call::FeedStr(last)) = calls.last().cloned() {
            let chars: Vec<char> = last.chars().collect();
            if chars.len() <= 60 {
                tally.class("every_cut_position");
                for k in 0..=chars.len() {
                    let mut c2 = calls.clone();
                    let n = c2.len();
                    c2[n - 1] = Call::FeedStr(chars[..k].iter().collect());
                    let mut tail: Vec<String> = vec![chars[k..].iter().collect()];
                    tail.extend(case.tail.iter().cloned());
                    let v = judge_one(case, c2, &tail, tally);
                    if v != Verdict::Pass {
                        return match v {
                            Verdict::Fail { sig, msg } => Verdict::fail(sig, format!("with the last feed cut after {} characters: {}", k, msg)),
                            other => other,
                        };
                    }
                }
                return Verdict::Pass;
            }
        }
    }
    judge_one(case, calls, &case.tail, tally)
}

pub fn gen_case(src: &mut Src, _i: usize) -> Case {
    let (cols, rows) = match src.below(10) {
        0 => (*src.pick(&[16usize, 24, 80]), src.range(2, 6)),
        _ => gen::small_size(src),
    };
    let mut g = G::new(cols, rows);
    g.w[gen::CAT_TABSET] = 4;
    g.w[gen::CAT_STBM] = 5;
    g.w[gen::CAT_DECMODE] = 6;
    g.w[gen::CAT_SAVE] = 4;
    g.w[gen::CAT_CHARSET] = 4;
    g.w[gen::CAT_ANSIMODE] = 4;
    g.w[gen::CAT_ALT] = 5;
    g.w[gen::CAT_FILL] = 4;
    g.ris = src.chance(1, 6);
    let mut case = Case::new(cols, rows, if src.chance(1, 4) { gen::limit(src) } else { None });
    let n = src.range(1, 8);
    let mut tr = ScreenTracker::new();
    for _ in 0..n {
        if src.chance(1, 6) {
            // K1 (dump while the alternate screen shows, after a resize during this excursion)
            // is excluded by the judge and counted; resizes during an excursion are kept at
            // one in three because most of these histories return to the primary screen
            // later and are then judged normally
            if tr.alt == Some(false) || src.chance(1, 3) {
                let (c, r) = gen::resize_target(src, &g);
                g.cols = c;
                g.rows = r;
                case.calls.push(Call::Resize(c, r));
            }
            continue;
        }
        let s = gen::input(src, &g, 6);
        tr.feed_str(&s);
        case.calls.push(Call::FeedStr(s));
    }
    // targeted K2-adjacent shape now and then (still judged; K2 hits are recognised semantically)
    if src.chance(1, 12) && g.rows >= 3 && tr.alt == Some(false) {
        let s = format!("\x1b[?6h\x1b[{};2H\x1b7\x1b[{};{}r\x1b8{}", src.range(1, g.rows), src.range(1, g.rows), src.range(2, g.rows + 1), *src.pick(&["", "\x1b[?7l", "\x1b[1m"]));
        case.calls.push(Call::FeedStr(s));
    }
    // cut the final feed somewhere
    let full = gen::input(src, &g, 5);
    let chars: Vec<char> = full.chars().collect();
    let k = if src.chance(1, 2) { chars.len() } else { src.below(chars.len() + 1) };
    case.calls.push(Call::FeedStr(chars[..k].iter().collect()));
    let mut tail: Vec<String> = vec![chars[k..].iter().collect()];
    for _ in 0..src.range(1, 3) {
        tail.push(gen::input(src, &g, 6));
    }
    case.tail = tail;
    case
}

/// the neighbourhood of K2/K3 at random: origin mode, a region, saves inside and outside
/// it, restores after the margins moved, wrap-pending cursors, auto-wrap toggles,
/// width-only resizes (they keep the region and can push the cursor across a margin)
pub fn gen_origin_outside(src: &mut Src, _i: usize) -> Case {
    let cols = src.range(1, 8);
    let rows = src.range(3, 7);
    let mut case = Case::new(cols, rows, None);
    let mut s = String::from("ab\r\ncdefgh\r\ni\x1b[?6h");
    let pool: [&str; 22] = [
        "\x1b7", "\x1b8", "\x1b[s", "\x1b[u", "\x1b[?7l", "\x1b[?7h", "\x1b[?6h", "\x1b[A", "\x1b[B", "\x1b[C", "\x1b[D", "\x1b[9A", "\x1b[9B",
        "\x1b[1m", "\x1b[m", "x", "\x1b[999Gx", "\x1b[4h", "\x1b[?1048h", "\x1b[?1048l", "\r", "\x1b[2;1H",
    ];
    let n = src.range(2, 10);
    let mut cur_cols = cols;
    for _ in 0..n {
        match src.below(8) {
            0 | 1 => {
                let t = src.range(1, rows - 1);
                let b = src.range(t + 1, rows);
                s.push_str(&format!("\x1b[{};{}r", t, b));
            }
            2 => {
                s.push_str(&format!("\x1b[{};{}H", src.range(1, rows), src.range(1, cur_cols)));
            }
            3 => {
                if !s.is_empty() {
                    case.calls.push(Call::FeedStr(std::mem::take(&mut s)));
                }
                cur_cols = src.range(1, 9);
                case.calls.push(Call::Resize(cur_cols, rows));
            }
            _ => s.push_str(*src.pick(&pool)),
        }
    }
    case.calls.push(Call::FeedStr(s));
    case.tail = vec!["Z\x1b[2;2HY\x1b8X".into()];
    case
}

pub fn gen_short_all_cuts(src: &mut Src, _i: usize) -> Case {
    let (cols, rows) = gen::small_size(src);
    let g = G::new(cols, rows);
    let mut case = Case::new(cols, rows, None);
    if src.chance(1, 2) {
        case.calls.push(Call::FeedStr(gen::input(src, &g.clone().no_ris(), 4)));
    }
    let mut s = gen::input(src, &g, 3);
    if s.chars().count() > 40 {
        s = s.chars().take(40).collect();
    }
    case.calls.push(Call::FeedStr(s));
    case.tail = vec![gen::input(src, &g, 4)];
    case.nums = vec![1];
    case
}

/// each hidden component alone and all ordered pairs, cut at every position of the second
fn enum_components() -> Vec<Case> {
    let setters = [
        "\x1b[3g\x1b[5G\x1bH\x1b[7G\x1bH", "\x1b[2;3r", "\x1b[?6h", "\x1b[2;3H\x1b[1;33m\x1b7", "\x1b(0", "\x1b)0\x0e", "\x1b[4h", "\x1b[?7l", "\x1b[20h", "\x1b[?1h", "\x1b[?25l", "\x1b[?1047h", "\x1b[?1049hALT",
        "\x1b[1;4;38;5;100;48;2;1;2;3m", "abcdefghijklmnopqrstuvwxyz0123456789", "\x1b[?1047h\x1b[2;2H\x1b[45m\x1b7\x1b[?1047l", "\x1b[2;2Hxy\x1b[41m\x1b[K", "\x1b[999;999Hz", "\x1b[s\x1b[?7l\x1b[?6h", "\x1b[1;2r\x1b[?6h\x1b[3;1H",
    ];
    let partial = ["\x1b", "\x1b[", "\x1b[3", "\x1b[3;4", "\x1b[?", "\x1b[?25", "\x1b[38:5", "\x1b[1 ", "\x1b(", "\x1b#", "\x1bP", "\x1bP1;2", "\x1bP1$", "\x1bPq", "\x1bP:", "\x1b]", "\x1b]0;ti", "\x1b_", "\x1b[:", "\u{9b}", "\u{90}", "\u{9d}x"];
    let mut v = vec![];
    for (cols, rows) in [(8usize, 4usize), (3, 3)] {
        for a in setters {
            for b in setters {
                let mut c = Case::new(cols, rows, None).feed(a).feed(b);
                c.tail = vec!["Xq\r\n\tY\x1b[2;2H\x1b8Z".into()];
                c.nums = vec![1];
                v.push(c);
            }
            for p in partial {
                let mut c = Case::new(cols, rows, None).feed(a).feed(p);
                c.tail = vec!["5;6HX".into(), "\x07Y\x1b\\Z".into()];
                v.push(c);
                let mut c = Case::new(cols, rows, None).feed(a).feed(p);
                c.tail = vec!["mX".into(), "\u{9c}hY".into()];
                v.push(c);
            }
        }
    }
    v
}


/// every short parameter/intermediate/marker prefix after a CSI or DCS introducer, also the
/// malformed ones (a marker after a digit, a digit after an intermediate, ...), each with
/// continuations that would do something visible if the restored parser were in another
/// state than the original (a private marker continuing a prefix that already holds a
/// parameter must send both to "ignore")
fn enum_parser_prefixes() -> Vec<Case> {
    let alphabet = ['0', '7', ';', ':', '?', '>', ' ', '$'];
    let mut bodies: Vec<String> = vec![String::new()];
    let mut level: Vec<String> = vec![String::new()];
    for _ in 0..3 {
        let mut next = vec![];
        for b in &level {
            for a in alphabet {
                next.push(format!("{}{}", b, a));
            }
        }
        bodies.extend(next.iter().cloned());
        level = next;
    }
    let conts: [&[&str]; 6] = [&["?6h", "X\r\nY"], &["3;2H", "X"], &[">4;2m", "X"], &["7mX", "Y"], &[" qX", "Y"], &["?1049h", "X\x1b[?1049lY"]];
    let mut v = vec![];
    for intro in ["\x1b[", "\u{9b}", "\x1bP", "\u{90}"] {
        for b in &bodies {
            for ct in conts {
                let mut c = Case::new(6, 4, None).feed("ab\x1b[2;2r\x1b[2;3H").feed(format!("{}{}", intro, b));
                c.tail = ct.iter().map(|s| s.to_string()).collect();
                c.tail.push("\x07Z\x1b\\W\x1b[1;1Hq".into());
                v.push(c);
            }
        }
    }
    v
}

/// origin mode on with the cursor parked outside the scroll region (reached by restoring a
/// cursor saved before the margins moved), then moved relatively in every direction; with
/// and without a saved context that disagrees with the current modes (only the latter is
/// the listed exception K2)
fn enum_origin_outside() -> Vec<Case> {
    let mut v = vec![];
    let (cols, rows) = (6usize, 5usize);
    let moves = ["", "\x1b[C", "\x1b[D", "\x1b[9C", "\x1b[9D", "\x1b[A", "\x1b[B", "\x1b[9A", "\x1b[9B", "\x1b[2C\x1b[A", "\x1b[2D\x1b[B", "\x1b[C\x1b[B", "\x1b[D\x1b[A"];
    let after = ["", "\x1b[?7l", "\x1b[?7h", "\x1b[1m", "\x1b[31mq", "\x1b[4h", "\x1b(0"];
    let pens = ["", "\x1b[7;32m", "\x1b[?7l"];
    for t in 1..=rows {
        for b in t + 1..=rows {
            for r in 1..=rows {
                if r >= t && r <= b {
                    continue;
                }
                for c in [1usize, 3, 6] {
                    for pen in pens {
                        for mv in moves {
                            for a in after {
                                let mut case = Case::new(cols, rows, None)
                                    .feed(format!("ab\r\ncd\x1b[?6h{}\x1b[{};{}H\x1b7\x1b[{};{}r\x1b8{}{}", pen, r, c, t, b, mv, a));
                                case.tail = vec!["X\x1b[2;2HY\x1b8Z".into()];
                                v.push(case);
                            }
                        }
                    }
                }
            }
        }
    }
    v
}

pub fn run(env: &Env) -> PropRun {
    let j = |c: &Case, t: &mut Tally| judge("", c, t);
    let mut parts = vec![];
    let eo = enum_origin_outside();
    parts.push(run_part(env, "enum-origin-outside-region", eo.len(), true, "6x5: every scroll region x every saved row outside it x 3 columns x 3 set-ups before the save (plain, pen, auto-wrap off) x 13 relative moves after the restore x 7 follow-ups (saved auto-wrap off + current on is the listed exception K2)", &|i| eo.get(i).cloned(), &j));
    let ec = enum_components();
    parts.push(run_part(env, "enum-components", ec.len(), true, "2 sizes x (all ordered pairs of 20 hidden-state setters, the second cut at every position) + (20 setters x 22 partial sequences covering every non-ground parser state x 2 completions)", &|i| ec.get(i).cloned(), &j));
    let pp = enum_parser_prefixes();
    parts.push(run_part(env, "enum-parser-prefixes", pp.len(), true, "6x4 with a scroll region: {ESC [, U+009B, ESC P, U+0090} x every string of 0-3 characters over {0 7 ; : ? > SP $} (well-formed and malformed prefixes) x 6 continuations (private-marker mode set, CUP, marker + SGR-like, SGR, intermediate + final, ?1049h) + a string terminator", &|i| pp.get(i).cloned(), &j));
    parts.push(random_part(env, "origin-outside-random", env.tier.scale(30_000, 30), &gen_origin_outside, &j));
    parts.push(random_part(env, "short-every-cut", env.tier.scale(6_000, 30), &gen_short_all_cuts, &j));
    parts.push(random_part(env, "random-histories", env.tier.scale(40_000, 40), &gen_case, &j));
    PropRun {
        parts,
        meta: EvidenceMeta {
            rule: "orig = terminal after the history; restored = fresh terminal of the same size fed orig.dump(). They must be observationally equivalent: same visible cells, pens, soft-wrap marks, cursor, visibility, cursor-key mode; equal after every element of ~25 chained probe sequences exposing parser state, pen, charsets, insert, auto-wrap, LNM, tab stops, margins, origin, both saved contexts, both screens; equal after the generated continuation (whose first element completes a cut sequence). Histories <= 60 chars are additionally cut at every position. Non-trivial = the history sets >= 2 hidden components.".into(),
            assumptions: vec![
                "K1: a dump taken while the alternate screen shows after a resize during that same excursion is excluded and counted while listed as open in known_findings.json; once the excursion has ended the history is judged normally".into(),
                "K2: failures in states with origin mode on, the cursor outside the scroll region AND a saved context that has auto-wrap or origin mode off (read behaviourally on a replica after CSI u) are counted, not reported, while listed as open; the same cursor state with a saved context that has both modes on is judged normally".into(),
                "K3: failures in states with origin mode on, the cursor outside the scroll region AND a saved cursor position from which CUB/CUF + CUU/CUD by the distance cannot reach the cursor (a margin is in the way; simulated on a replica) are counted, not reported, while listed as open".into(),
            ],
            not_compared: vec!["scrollback (not part of the dump)".into(), "the text of dump() itself".into()],
        },
        extra: serde_json::json!({}),
    }
}
