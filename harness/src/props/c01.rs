//! C01 — total on every input: no panic, no hang, for any text, size and history.
//! The oracle is "every call returns" in a build with overflow checks and debug
//! assertions on (harness release profile); panics are caught by the engine and become
//! violations, a single case running > 30 s trips the watchdog.

use super::PropRun;
use crate::case::{new_vt, Call, Case, Verdict};
use crate::engine::{random_part, run_part, Env, EvidenceMeta, Tally, Tier};
use crate::gen::{self, G};
use crate::src::Src;
use avt::util::{TextCollector, TextUnwrapper};

/// exercise every read-only accessor on the current state
pub fn touch_everything(vt: &avt::Vt) -> usize {
    let mut acc = 0usize;
    let (cols, rows) = vt.size();
    acc += cols + rows;
    let c = vt.cursor();
    acc += c.col + c.row + c.visible as usize;
    let opt: Option<(usize, usize)> = c.into();
    acc += opt.map(|x| x.0).unwrap_or(0);
    acc += vt.cursor_key_app_mode() as usize;
    for (i, l) in vt.view().iter().enumerate() {
        acc += l.len() + l.is_empty() as usize;
        acc += vt.line(i).len();
        acc += l.cells().len();
        acc += l.chars().count();
        acc += l.text().len();
        for ch in l.chunks(|a, b| a.pen() != b.pen()) {
            acc += ch.len();
        }
        for ch in l.chunks(|a, b| a.char() != b.char()) {
            acc += ch.len();
        }
        for cell in l.cells() {
            acc += cell.width() + cell.is_default() as usize + cell.char() as usize;
            let p = cell.pen();
            acc += p.is_bold() as usize + p.is_faint() as usize + p.is_italic() as usize + p.is_underline() as usize + p.is_strikethrough() as usize + p.is_blink() as usize + p.is_inverse() as usize + p.is_default() as usize;
            acc += p.foreground().is_some() as usize + p.background().is_some() as usize;
        }
        acc += format!("{:?}", l).len();
    }
    acc += vt.lines().len();
    acc += vt.text().len();
    acc += vt.dump().len();
    let mut u = TextUnwrapper::new();
    for l in vt.lines() {
        acc += u.push(l).map(|s| s.len()).unwrap_or(0);
    }
    acc += u.flush().map(|s| s.len()).unwrap_or(0);
    acc
}

/// Run one case in a child process (this binary in replay mode). A stack overflow or any
/// other abort kills a process outright - no panic to catch - so cases built to provoke
/// deep recursion or huge allocations are judged from outside: the child dying on a signal
/// is the failure.
fn judge_isolated(case: &Case, tally: &mut Tally) -> Verdict {
    use std::os::unix::process::ExitStatusExt;
    tally.steps += 1;
    tally.nontrivial = true;
    let dir = std::env::var("VERIF_DIR").map(std::path::PathBuf::from).unwrap_or_else(|_| std::path::PathBuf::from("/verif")).join("work").join("isolated");
    let _ = std::fs::create_dir_all(&dir);
    let path = dir.join(format!("C01-{:016x}-{}.json", case.key(), std::process::id()));
    let replay = serde_json::json!({
        "property": "C01", "part": "random-small", "case": case, "sig": "", "msg": "", "rendered": "", "seed": 0, "found_by": "isolated run",
    });
    if std::fs::write(&path, replay.to_string()).is_err() {
        return Verdict::Invalid("cannot write the case for the isolated run".into());
    }
    let exe = match std::env::current_exe() {
        Ok(e) => e,
        Err(_) => return Verdict::Invalid("cannot find the running binary".into()),
    };
    // Time is never the oracle here: a child that has not finished after 20 s (a slow or
    // busy machine - several of these run side by side) is killed and the case counts as
    // inconclusive, well before the in-process watchdog (30 s) would look at this worker.
    let child = std::process::Command::new(exe)
        .arg("C01")
        .arg("quick")
        .arg("--replay")
        .arg(&path)
        .env("VERIF_ISOLATED_CHILD", "1")
        .stdout(std::process::Stdio::piped())
        .stderr(std::process::Stdio::piped())
        .spawn();
    let mut child = match child {
        Ok(c) => c,
        Err(e) => {
            let _ = std::fs::remove_file(&path);
            return Verdict::Invalid(format!("cannot start the isolated run: {}", e));
        }
    };
    let t0 = std::time::Instant::now();
    let finished = loop {
        match child.try_wait() {
            Ok(Some(_)) => break true,
            Ok(None) => {
                if t0.elapsed().as_secs() >= 20 {
                    break false;
                }
                std::thread::sleep(std::time::Duration::from_millis(20));
            }
            Err(_) => break false,
        }
    };
    if !finished {
        let _ = child.kill();
        let _ = child.wait();
        let _ = std::fs::remove_file(&path);
        tally.class("isolated_run_too_slow_inconclusive");
        return Verdict::Invalid("isolated run did not finish within 20 s on this machine (inconclusive, not a violation)".into());
    }
    let out = child.wait_with_output();
    let _ = std::fs::remove_file(&path);
    match out {
        Err(e) => Verdict::Invalid(format!("cannot collect the isolated run: {}", e)),
        Ok(o) => {
            if let Some(sig) = o.status.signal() {
                if !matches!(sig, 4 | 6 | 7 | 8 | 11) {
                    // not SIGILL / SIGABRT / SIGBUS / SIGFPE / SIGSEGV: killed from outside
                    // (OOM killer, operator) - says nothing about avt
                    tally.class("isolated_run_killed_from_outside_inconclusive");
                    return Verdict::Invalid(format!("isolated run was killed by signal {} from outside (inconclusive)", sig));
                }
                let err = String::from_utf8_lossy(&o.stderr);
                let line = err.lines().rev().find(|l| !l.trim().is_empty()).unwrap_or("").to_string();
                return Verdict::fail("abort", format!("the process running this case alone was killed by signal {} ({})", sig, crate::case::clip(&line, 200)));
            }
            match o.status.code() {
                Some(0) => Verdict::Pass,
                Some(1) => {
                    let so = String::from_utf8_lossy(&o.stdout);
                    let line = so.lines().find(|l| l.starts_with("replay ")).unwrap_or("").to_string();
                    Verdict::fail("isolated", format!("in an isolated run: {}", crate::case::clip(&line, 300)))
                }
                c => Verdict::Invalid(format!("isolated run inconclusive (exit {:?})", c)),
            }
        }
    }
}

/// cases aimed at recursion depth and allocation size: very long chains of soft-wrapped
/// rows merged into one row by a single widening (and the reverse), huge widths and heights
fn isolated_cases() -> Vec<Case> {
    let mut v = vec![];
    let text = |n: usize| -> String { (0..n).map(|k| (b'a' + (k % 26) as u8) as char).collect() };
    for (cols, k) in [(1usize, 3_000usize), (1, 12_000), (2, 20_000), (3, 30_000), (1, 40_000)] {
        for limit in [None, Some(0)] {
            // k characters wrap over k / cols rows; one resize makes them a single row
            v.push(Case::new(cols, 2, limit).feed(text(k)).resize(k + 3, 2).feed("x\r\ny"));
            // ... and back. (Narrowing one very wide row costs time quadratic in its width on
            // the unchanged tree - Line::contract splits the remainder off again for every
            // new row; 25 s for 80 000 columns -, so this direction stays at widths where
            // that is far below the watchdog; see DESIGN section 9.)
            let kn = k.min(8_000);
            v.push(Case::new(kn + 3, 2, limit).feed(text(kn)).resize(cols, 2).resize(kn / 2, 3).feed("x"));
            // character by character, dump and text in between
            let mut c = Case::new(cols, 3, limit);
            c.calls.push(Call::Feed(text(k.min(8_000))));
            c.calls.push(Call::Dump);
            c.calls.push(Call::Resize(k, 1));
            c.calls.push(Call::Text);
            c.calls.push(Call::Resize(k.min(8_000), 1));
            c.calls.push(Call::Resize(1, 1));
            v.push(c);
        }
    }
    // tall and wide extremes
    v.push(Case::new(2, 20_000, Some(100)).feed("\n".repeat(25_000)).resize(3, 20_000).resize(2_000, 20).feed("\x1b[65535S\x1b[65535T"));
    v.push(Case::new(20_000, 1, Some(10)).feed("\x1b[65535b\x1b[65535@\x1b[65535P").resize(20_000, 3).feed("\x1b[65535L\x1b[65535M"));
    for c in v.iter_mut() {
        c.nums = vec![0, 1];
    }
    v
}

pub fn judge(part: &str, case: &Case, tally: &mut Tally) -> Verdict {
    let child = std::env::var("VERIF_ISOLATED_CHILD").is_ok();
    if part == "isolated-extremes" && !child {
        return judge_isolated(case, tally);
    }
    if child {
        // In the child the case runs on a thread with a 1 MiB stack (a main thread has 8 MiB):
        // avt's own code is not recursive and needs a few KiB, so recursion that grows with
        // the input overflows - and aborts the process - at a depth of a few thousand frames.
        let mut t2 = Tally::default();
        let v = std::thread::scope(|sc| {
            std::thread::Builder::new()
                .stack_size(1 << 20)
                .spawn_scoped(sc, || judge_inner(case, &mut t2))
                .map(|h| h.join())
        });
        return match v {
            Ok(Ok(v)) => {
                tally.steps += t2.steps;
                v
            }
            Ok(Err(p)) => std::panic::resume_unwind(p),
            Err(_) => Verdict::Invalid("cannot start the small-stack thread".into()),
        };
    }
    judge_inner(case, tally)
}

fn judge_inner(case: &Case, tally: &mut Tally) -> Verdict {
    let drain_mode = case.nums.first().copied().unwrap_or(0);
    let collector = case.nums.get(1).copied().unwrap_or(0) == 1;
    let mut vt = new_vt(case.cols, case.rows, case.limit);
    let mut acc = 0usize;
    let mut resized = false;
    let mut alt_then_resize = false;
    let mut saw_alt = false;
    let (mut cols, mut rows) = (case.cols, case.rows);
    if cols == 1 || rows == 1 {
        tally.class("one_wide_or_high");
        tally.nontrivial = true;
    }
    for (i, call) in case.calls.iter().enumerate() {
        tally.steps += 1;
        match call {
            Call::FeedStr(s) => {
                if s.contains("65535") {
                    tally.class("count_65535");
                    tally.nontrivial = true;
                }
                if s.contains("1049h") || s.contains("1047h") || s.contains("?47h") {
                    saw_alt = true;
                }
                let ch = vt.feed_str(s);
                acc += ch.lines.len();
                match (drain_mode + i) % 3 {
                    0 => acc += ch.scrollback.map(|l| l.len()).sum::<usize>(),
                    1 => {
                        let mut it = ch.scrollback;
                        if let Some(l) = it.next() {
                            acc += l.text().len();
                        }
                        drop(it);
                    }
                    _ => drop(ch),
                }
            }
            Call::Feed(s) => {
                for c in s.chars() {
                    vt.feed(c);
                }
            }
            Call::Resize(c, r) => {
                resized = true;
                if saw_alt {
                    alt_then_resize = true;
                }
                if *c == 1 || *r == 1 {
                    tally.class("one_wide_or_high");
                }
                let ch = vt.resize(*c, *r);
                acc += ch.lines.len();
                if (drain_mode + i) % 2 == 0 {
                    acc += ch.scrollback.count();
                } else {
                    drop(ch);
                }
                cols = *c;
                rows = *r;
            }
            Call::Dump => acc += vt.dump().len(),
            Call::Text => acc += vt.text().len(),
            Call::Query => acc += touch_everything(&vt),
        }
    }
    acc += touch_everything(&vt);
    let _ = (cols, rows);
    if resized {
        tally.class("resize");
        tally.nontrivial = true;
    }
    if alt_then_resize {
        tally.class("alt_then_resize");
    }
    if collector {
        tally.class("text_collector");
        let mut tc = TextCollector::new(new_vt(case.cols, case.rows, case.limit));
        for call in &case.calls {
            match call {
                Call::FeedStr(s) | Call::Feed(s) => acc += tc.feed_str(s).map(|l| l.len()).sum::<usize>(),
                Call::Resize(c, r) => acc += tc.resize((*c).min(65535) as u16, (*r).min(65535) as u16).count(),
                _ => {}
            }
        }
        acc += tc.flush().len();
    }
    std::hint::black_box(acc);
    Verdict::Pass
}

pub fn gen_history(src: &mut Src, big: bool) -> Case {
    gen_history_x(src, big, true)
}

/// `xtwinops`: include XTWINOPS resize requests (only for judges that do not track the size)
pub fn gen_history_x(src: &mut Src, big: bool, xtwinops: bool) -> Case {
    let (cols, rows) = if big { gen::any_size(src) } else { gen::small_size(src) };
    let limit = gen::limit(src);
    let mut g = G::new(cols, rows).with_raw(6);
    g.xtwinops = xtwinops;
    let n = src.range(1, 14);
    let mut case = Case::new(cols, rows, limit);
    case.calls = gen::history(src, &mut g, n, 15, 12, 12, big);
    case.nums = vec![src.below(3), src.chance(1, 4) as usize];
    case
}

pub fn gen_big(src: &mut Src, _i: usize) -> Case {
    gen_history(src, true)
}

pub fn gen_small(src: &mut Src, _i: usize) -> Case {
    gen_history(src, false)
}

/// pure garbage: arbitrary scalar values and raw fragments only
pub fn gen_garbage(src: &mut Src, _i: usize) -> Case {
    let (cols, rows) = gen::any_size(src);
    let mut g = G::new(cols, rows);
    g.raw = true;
    g.xtwinops = true;
    g.w = [0; gen::NCAT];
    g.w[gen::CAT_RAW] = 10;
    g.w[gen::CAT_TEXT] = 2;
    g.w[gen::CAT_ALT] = 1;
    g.w[gen::CAT_STBM] = 1;
    g.w[gen::CAT_LINES] = 1;
    let mut case = Case::new(cols, rows, gen::limit(src));
    let n = src.range(1, 8);
    case.calls = gen::history(src, &mut g, n, 20, 15, 10, true);
    case.nums = vec![src.below(3), 0];
    case
}

/// volume: one call with tens of thousands of characters; many calls
pub fn gen_volume(src: &mut Src, _i: usize) -> Case {
    let (cols, rows) = gen::any_size(src);
    let mut g = G::new(cols, rows).with_raw(3);
    let mut case = Case::new(cols, rows, gen::limit(src));
    let target = *src.pick(&[5_000usize, 20_000, 70_000]);
    let mut s = String::new();
    let mut n = 0;
    while n < target {
        let f = gen::frag(src, &g);
        n += f.chars().count() + 1;
        s.push_str(&f);
        if src.chance(1, 400) {
            let (c, r) = gen::any_size(src);
            case.calls.push(Call::FeedStr(std::mem::take(&mut s)));
            case.calls.push(Call::Resize(c, r));
            g.cols = c;
            g.rows = r;
        }
    }
    case.calls.push(Call::FeedStr(s));
    case.calls.push(Call::Query);
    case.nums = vec![src.below(3), src.chance(1, 3) as usize];
    case
}

/// longevity: hundreds to thousands of calls on one terminal (counters, epochs, caches)
pub fn gen_many_calls(src: &mut Src, _i: usize) -> Case {
    let (cols, rows) = gen::small_size(src);
    let mut g = G::new(cols, rows).with_raw(1);
    g.ris = src.chance(1, 4);
    let mut case = Case::new(cols, rows, gen::limit(src));
    let n = *src.pick(&[260usize, 300, 520, 1100, 4200]);
    for k in 0..n {
        match src.below(30) {
            0 => {
                let (c, r) = gen::resize_target(src, &g);
                g.cols = c;
                g.rows = r;
                case.calls.push(Call::Resize(c, r));
            }
            1 => case.calls.push(Call::Feed(gen::frag(src, &g))),
            2 => case.calls.push(src.pick(&[Call::Dump, Call::Text, Call::Query]).clone()),
            3 | 4 => case.calls.push(Call::FeedStr(String::new())),
            5..=12 => case.calls.push(Call::FeedStr(gen::frag(src, &g))),
            _ => case.calls.push(Call::FeedStr(format!("l{}\r\n", k))),
        }
    }
    case.nums = vec![src.below(3), src.chance(1, 4) as usize];
    case
}

/// enumerated: every count-taking control with 65535 on every small size, on both screens
fn enum_huge_counts() -> Vec<Case> {
    let mut v = vec![];
    let finals = ['b', '@', 'P', 'X', 'L', 'M', 'S', 'T', 'A', 'B', 'C', 'D', 'E', 'F', 'G', 'I', 'Z', 'a', 'd', 'e', '`'];
    for (cols, rows) in [(1usize, 1usize), (1, 3), (3, 1), (2, 2), (5, 3), (80, 24)] {
        for limit in [None, Some(0), Some(3)] {
            for alt in [false, true] {
                for pre in ["", "x", "\x1b[999;999Hx", "\x1b[2;2r\x1b[?6h", "\x1b[4h\x1b[?7l"] {
                    for f in finals {
                        for n in ["65535", "65536", "4294967295", "99999999999999999999"] {
                            let mut s = String::new();
                            if alt {
                                s.push_str("\x1b[?1049h");
                            }
                            s.push_str(pre);
                            s.push_str(&format!("\x1b[{}{}", n, f));
                            v.push(Case::new(cols, rows, limit).feed(s).resize(rows, cols).with_nums(vec![0, 1]));
                        }
                    }
                }
            }
        }
    }
    v
}

pub fn run(env: &Env) -> PropRun {
    let j = |c: &Case, t: &mut Tally| judge("", c, t);
    let mut parts = vec![];
    let huge = enum_huge_counts();
    parts.push(run_part(env, "enum-huge-counts", huge.len(), true, "6 sizes x 3 limits x primary/alternate x 5 prefixes x 21 count-taking finals x {65535, 65536, 2^32-1, 10^20}, then a transposing resize, plus TextCollector", &|i| huge.get(i).cloned(), &j));
    let n = match env.tier {
        Tier::Quick => 120_000,
        Tier::Thorough => 3_000_000,
    };
    parts.push(random_part(env, "random-small", n, &gen_small, &j));
    parts.push(random_part(env, "random-any-size", n / 4, &gen_big, &j));
    parts.push(random_part(env, "garbage", n / 2, &gen_garbage, &j));
    {
        let iso = isolated_cases();
        let ji = |c: &Case, t: &mut Tally| judge("isolated-extremes", c, t);
        let env4 = Env { prop: env.prop.clone(), tier: env.tier, seed: env.seed, threads: env.threads.min(4), verif_dir: env.verif_dir.clone() };
        let env = &env4;
        parts.push(run_part(env, "isolated-extremes", iso.len(), true, "chains of 3 000 - 40 000 soft-wrapped rows merged into one row by a single widening and split again, per-character feeding with dump/text in between, 20 000-row and 20 000-column screens; each case in a child process so that a stack overflow or abort is seen", &|i| iso.get(i).cloned(), &ji));
    }
    {
        // states that only a restored cursor or a width-only resize reaches (origin mode on,
        // cursor outside the scroll region, saved cursor anywhere), each followed by every
        // read-only operation: dump() has a branch of its own for them
        let go = |src: &mut Src, i: usize| {
            let mut c = super::c11::gen_origin_outside(src, i);
            c.tail.clear();
            c.limit = gen::limit(src);
            let k = c.calls.len();
            for at in [k, k / 2] {
                c.calls.insert(at.min(c.calls.len()), Call::Dump);
            }
            c.calls.push(Call::Text);
            c.calls.push(Call::Query);
            c.calls.push(Call::FeedStr("\x1b[?47h".into()));
            c.calls.push(Call::Dump);
            c.calls.push(Call::FeedStr("\x1b[?47l\x1b8".into()));
            c.calls.push(Call::Dump);
            c.nums = vec![src.below(3), 0];
            c
        };
        parts.push(random_part(env, "origin-outside-dump", env.tier.scale(30_000, 30), &go, &j));
    }
    parts.push(random_part(env, "many-calls", env.tier.scale(300, 20), &gen_many_calls, &j));
    parts.push(random_part(env, "volume", env.tier.scale(300, 20), &gen_volume, &j));
    PropRun {
        parts,
        meta: EvidenceMeta {
            rule: "Histories of feed_str / feed / resize / dump / text / every read accessor (incl. Line::chunks, Debug, TextUnwrapper) with consumed, partly consumed and dropped Changes.scrollback, optionally mirrored through TextCollector; structured + raw grammar (any scalar value, truncated sequences, 5-20 digit parameters, 31-80 parameters, up to 12 sub-parameters, 65535 counts, aborted strings). Oracle: every call returns (overflow checks + debug assertions on); a case > 30 s trips the watchdog. Non-trivial = history with a resize, a 65535 count, or a 1-wide/1-high screen.".into(),
            assumptions: vec!["sizes with 0 columns or rows are outside the documented domain and never generated".into(), "hang = one case exceeding 30 s (>1000x the slowest legitimate case)".into()],
            not_compared: vec!["no functional oracle here; results are only required to exist".into()],
        },
        extra: serde_json::json!({"build": "opt-level=3, overflow-checks=on, debug-assertions=on"}),
    }
}
