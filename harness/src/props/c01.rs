//! C01 — total on every input: no panic, no hang, for any text, size and history.
//! The oracle is "every call returns" in a build with overflow checks and debug
//! assertions on (harness release profile); panics are caught by the engine and become
//! violations, a single case running > 30 s trips the watchdog.

use super::PropRun;
use crate::case::{new_vt, Call, Case, Verdict};
use crate::engine::{random_part, run_part, Env, EvidenceMeta, Tally, Tier};
use crate::gen::{self, G};
use crate::src::Src;
use avt::util::{TextCollector, TextUnwrapper};

/// exercise every read-only accessor on the current state
pub fn touch_everything(vt: &avt::Vt) -> usize {
    let mut acc = 0usize;
    let (cols, rows) = vt.size();
    acc += cols + rows;
    let c = vt.cursor();
    acc += c.col + c.row + c.visible as usize;
    let opt: Option<(usize, usize)> = c.into();
    acc += opt.map(|x| x.0).unwrap_or(0);
    acc += vt.cursor_key_app_mode() as usize;
    for (i, l) in vt.view().iter().enumerate() {
        acc += l.len() + l.is_empty() as usize;
        acc += vt.line(i).len();
        acc += l.cells().len();
        acc += l.chars().count();
        acc += l.text().len();
        for ch in l.chunks(|a, b| a.pen() != b.pen()) {
            acc += ch.len();
        }
        for ch in l.chunks(|a, b| a.char() != b.char()) {
            acc += ch.len();
        }
        for cell in l.cells() {
            acc += cell.width() + cell.is_default() as usize + cell.char() as usize;
            let p = cell.pen();
            acc += p.is_bold() as usize + p.is_faint() as usize + p.is_italic() as usize + p.is_underline() as usize + p.is_strikethrough() as usize + p.is_blink() as usize + p.is_inverse() as usize + p.is_default() as usize;
            acc += p.foreground().is_some() as usize + p.background().is_some() as usize;
        }
        acc += format!("{:?}", l).len();
    }
    acc += vt.lines().len();
    acc += vt.text().len();
    acc += vt.dump().len();
    let mut u = TextUnwrapper::new();
    for l in vt.lines() {
        acc += u.push(l).map(|s| s.len()).unwrap_or(0);
    }
    acc += u.flush().map(|s| s.len()).unwrap_or(0);
    acc
}

pub fn judge(_part: &str, case: &Case, tally: &mut Tally) -> Verdict {
    let drain_mode = case.nums.first().copied().unwrap_or(0);
    let collector = case.nums.get(1).copied().unwrap_or(0) == 1;
    let mut vt = new_vt(case.cols, case.rows, case.limit);
    let mut acc = 0usize;
    let mut resized = false;
    let mut alt_then_resize = false;
    let mut saw_alt = false;
    let (mut cols, mut rows) = (case.cols, case.rows);
    if cols == 1 || rows == 1 {
        tally.class("one_wide_or_high");
        tally.nontrivial = true;
    }
    for (i, call) in case.calls.iter().enumerate() {
        tally.steps += 1;
        match call {
            Call::FeedStr(s) => {
                if s.contains("65535") {
                    tally.class("count_65535");
                    tally.nontrivial = true;
                }
                if s.contains("1049h") || s.contains("1047h") || s.contains("?47h") {
                    saw_alt = true;
                }
                let ch = vt.feed_str(s);
                acc += ch.lines.len();
                match (drain_mode + i) % 3 {
                    0 => acc += ch.scrollback.map(|l| l.len()).sum::<usize>(),
                    1 => {
                        let mut it = ch.scrollback;
                        if let Some(l) = it.next() {
                            acc += l.text().len();
                        }
                        drop(it);
                    }
                    _ => drop(ch),
                }
            }
            Call::Feed(s) => {
                for c in s.chars() {
                    vt.feed(c);
                }
            }
            Call::Resize(c, r) => {
                resized = true;
                if saw_alt {
                    alt_then_resize = true;
                }
                if *c == 1 || *r == 1 {
                    tally.class("one_wide_or_high");
                }
                let ch = vt.resize(*c, *r);
                acc += ch.lines.len();
                if (drain_mode + i) % 2 == 0 {
                    acc += ch.scrollback.count();
                } else {
                    drop(ch);
                }
                cols = *c;
                rows = *r;
            }
            Call::Dump => acc += vt.dump().len(),
            Call::Text => acc += vt.text().len(),
            Call::Query => acc += touch_everything(&vt),
        }
    }
    acc += touch_everything(&vt);
    let _ = (cols, rows);
    if resized {
        tally.class("resize");
        tally.nontrivial = true;
    }
    if alt_then_resize {
        tally.class("alt_then_resize");
    }
    if collector {
        tally.class("text_collector");
        let mut tc = TextCollector::new(new_vt(case.cols, case.rows, case.limit));
        for call in &case.calls {
            match call {
                Call::FeedStr(s) | Call::Feed(s) => acc += tc.feed_str(s).map(|l| l.len()).sum::<usize>(),
                Call::Resize(c, r) => acc += tc.resize((*c).min(65535) as u16, (*r).min(65535) as u16).count(),
                _ => {}
            }
        }
        acc += tc.flush().len();
    }
    std::hint::black_box(acc);
    Verdict::Pass
}

pub fn gen_history(src: &mut Src, big: bool) -> Case {
    gen_history_x(src, big, true)
}

/// `xtwinops`: include XTWINOPS resize requests (only for judges that do not track the size)
pub fn gen_history_x(src: &mut Src, big: bool, xtwinops: bool) -> Case {
    let (cols, rows) = if big { gen::any_size(src) } else { gen::small_size(src) };
    let limit = gen::limit(src);
    let mut g = G::new(cols, rows).with_raw(6);
    g.xtwinops = xtwinops;
    let n = src.range(1, 14);
    let mut case = Case::new(cols, rows, limit);
    case.calls = gen::history(src, &mut g, n, 15, 12, 12, big);
    case.nums = vec![src.below(3), src.chance(1, 4) as usize];
    case
}

pub fn gen_big(src: &mut Src, _i: usize) -> Case {
    gen_history(src, true)
}

pub fn gen_small(src: &mut Src, _i: usize) -> Case {
    gen_history(src, false)
}

/// pure garbage: arbitrary scalar values and raw fragments only
pub fn gen_garbage(src: &mut Src, _i: usize) -> Case {
    let (cols, rows) = gen::any_size(src);
    let mut g = G::new(cols, rows);
    g.raw = true;
    g.xtwinops = true;
    g.w = [0; gen::NCAT];
    g.w[gen::CAT_RAW] = 10;
    g.w[gen::CAT_TEXT] = 2;
    g.w[gen::CAT_ALT] = 1;
    g.w[gen::CAT_STBM] = 1;
    g.w[gen::CAT_LINES] = 1;
    let mut case = Case::new(cols, rows, gen::limit(src));
    let n = src.range(1, 8);
    case.calls = gen::history(src, &mut g, n, 20, 15, 10, true);
    case.nums = vec![src.below(3), 0];
    case
}

/// volume: one call with tens of thousands of characters; many calls
pub fn gen_volume(src: &mut Src, _i: usize) -> Case {
    let (cols, rows) = gen::any_size(src);
    let mut g = G::new(cols, rows).with_raw(3);
    let mut case = Case::new(cols, rows, gen::limit(src));
    let target = *src.pick(&[5_000usize, 20_000, 70_000]);
    let mut s = String::new();
    let mut n = 0;
    while n < target {
        let f = gen::frag(src, &g);
        n += f.chars().count() + 1;
        s.push_str(&f);
        if src.chance(1, 400) {
            let (c, r) = gen::any_size(src);
            case.calls.push(Call::FeedStr(std::mem::take(&mut s)));
            case.calls.push(Call::Resize(c, r));
            g.cols = c;
            g.rows = r;
        }
    }
    case.calls.push(Call::FeedStr(s));
    case.calls.push(Call::Query);
    case.nums = vec![src.below(3), src.chance(1, 3) as usize];
    case
}

/// longevity: hundreds to thousands of calls on one terminal (counters, epochs, caches)
pub fn gen_many_calls(src: &mut Src, _i: usize) -> Case {
    let (cols, rows) = gen::small_size(src);
    let mut g = G::new(cols, rows).with_raw(1);
    g.ris = src.chance(1, 4);
    let mut case = Case::new(cols, rows, gen::limit(src));
    let n = *src.pick(&[260usize, 300, 520, 1100, 4200]);
    for k in 0..n {
        match src.below(30) {
            0 => {
                let (c, r) = gen::resize_target(src, &g);
                g.cols = c;
                g.rows = r;
                case.calls.push(Call::Resize(c, r));
            }
            1 => case.calls.push(Call::Feed(gen::frag(src, &g))),
            2 => case.calls.push(src.pick(&[Call::Dump, Call::Text, Call::Query]).clone()),
            3 | 4 => case.calls.push(Call::FeedStr(String::new())),
            5..=12 => case.calls.push(Call::FeedStr(gen::frag(src, &g))),
            _ => case.calls.push(Call::FeedStr(format!("l{}\r\n", k))),
        }
    }
    case.nums = vec![src.below(3), src.chance(1, 4) as usize];
    case
}

/// enumerated: every count-taking control with 65535 on every small size, on both screens
fn enum_huge_counts() -> Vec<Case> {
    let mut v = vec![];
    let finals = ['b', '@', 'P', 'X', 'L', 'M', 'S', 'T', 'A', 'B', 'C', 'D', 'E', 'F', 'G', 'I', 'Z', 'a', 'd', 'e', '`'];
    for (cols, rows) in [(1usize, 1usize), (1, 3), (3, 1), (2, 2), (5, 3), (80, 24)] {
        for limit in [None, Some(0), Some(3)] {
            for alt in [false, true] {
                for pre in ["", "x", "\x1b[999;999Hx", "\x1b[2;2r\x1b[?6h", "\x1b[4h\x1b[?7l"] {
                    for f in finals {
                        for n in ["65535", "65536", "4294967295", "99999999999999999999"] {
                            let mut s = String::new();
                            if alt {
                                s.push_str("\x1b[?1049h");
                            }
                            s.push_str(pre);
                            s.push_str(&format!("\x1b[{}{}", n, f));
                            v.push(Case::new(cols, rows, limit).feed(s).resize(rows, cols).with_nums(vec![0, 1]));
                        }
                    }
                }
            }
        }
    }
    v
}

pub fn run(env: &Env) -> PropRun {
    let j = |c: &Case, t: &mut Tally| judge("", c, t);
    let mut parts = vec![];
    let huge = enum_huge_counts();
    parts.push(run_part(env, "enum-huge-counts", huge.len(), true, "6 sizes x 3 limits x primary/alternate x 5 prefixes x 21 count-taking finals x {65535, 65536, 2^32-1, 10^20}, then a transposing resize, plus TextCollector", &|i| huge.get(i).cloned(), &j));
    let n = match env.tier {
        Tier::Quick => 120_000,
        Tier::Thorough => 3_000_000,
    };
    parts.push(random_part(env, "random-small", n, &gen_small, &j));
    parts.push(random_part(env, "random-any-size", n / 4, &gen_big, &j));
    parts.push(random_part(env, "garbage", n / 2, &gen_garbage, &j));
    parts.push(random_part(env, "many-calls", env.tier.scale(300, 20), &gen_many_calls, &j));
    parts.push(random_part(env, "volume", env.tier.scale(300, 20), &gen_volume, &j));
    PropRun {
        parts,
        meta: EvidenceMeta {
            rule: "Histories of feed_str / feed / resize / dump / text / every read accessor (incl. Line::chunks, Debug, TextUnwrapper) with consumed, partly consumed and dropped Changes.scrollback, optionally mirrored through TextCollector; structured + raw grammar (any scalar value, truncated sequences, 5-20 digit parameters, 31-80 parameters, up to 12 sub-parameters, 65535 counts, aborted strings). Oracle: every call returns (overflow checks + debug assertions on); a case > 30 s trips the watchdog. Non-trivial = history with a resize, a 65535 count, or a 1-wide/1-high screen.".into(),
            assumptions: vec!["sizes with 0 columns or rows are outside the documented domain and never generated".into(), "hang = one case exceeding 30 s (>1000x the slowest legitimate case)".into()],
            not_compared: vec!["no functional oracle here; results are only required to exist".into()],
        },
        extra: serde_json::json!({"build": "opt-level=3, overflow-checks=on, debug-assertions=on"}),
    }
}
