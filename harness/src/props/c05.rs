//! C05 — cursor movement and addressing clamp to the screen and the scroll region.

use super::{product, radix, PropRun};
use crate::case::{Call, Case, Verdict};
use crate::engine::{random_part, run_part, Env, EvidenceMeta, Tally};
use crate::gen;
use crate::reffn::RefFn;
use crate::spec::{spec_judge, Class, SpecOpts};
use crate::src::Src;
use crate::walk::StepRec;

pub const SIZES: [(usize, usize); 7] = [(1, 1), (1, 4), (4, 1), (3, 3), (4, 5), (9, 4), (17, 3)];

pub fn margin_options(rows: usize) -> Vec<Option<(usize, usize)>> {
    let mut v = vec![None];
    for t in 1..=rows {
        for b in (t + 1)..=rows {
            if (t, b) != (1, rows) {
                v.push(Some((t, b)));
            }
        }
    }
    v
}

pub fn param_classes(edge: usize) -> Vec<String> {
    let mut v: Vec<String> = vec!["".into(), "0".into(), "1".into(), "2".into()];
    for x in [edge.saturating_sub(1), edge, edge + 1, edge * 2] {
        let s = x.to_string();
        if !v.contains(&s) {
            v.push(s);
        }
    }
    v.push("65535".into());
    v
}

/// setup that reaches every (row, col incl. wrap-pending) with any margins / origin mode
pub fn setup(cols: usize, _rows: usize, margins: Option<(usize, usize)>, origin: bool, row: usize, col: usize) -> String {
    let mut s = String::new();
    if origin {
        s.push_str("\x1b[?6h");
    }
    // margins are still the full screen here, so CUP reaches every row in either mode
    s.push_str(&format!("\x1b[{};{}H\x1b7", row + 1, col.min(cols - 1) + 1));
    if let Some((t, b)) = margins {
        s.push_str(&format!("\x1b[{};{}r", t, b));
    }
    s.push_str("\x1b8");
    if col >= cols {
        s.push('x');
    }
    s
}

fn commands(cols: usize, rows: usize) -> Vec<String> {
    let mut v: Vec<String> = vec![];
    for (f, edge) in [('A', rows), ('B', rows), ('C', cols), ('D', cols), ('E', rows), ('F', rows), ('e', rows), ('a', cols), ('G', cols), ('`', cols), ('d', rows), ('I', (cols / 8).max(1)), ('Z', (cols / 8).max(1))] {
        for p in param_classes(edge) {
            v.push(format!("\x1b[{}{}", p, f));
        }
    }
    for s in ["\x08", "\r", "\t", "\n", "\x0b", "\x0c", "\x1bD", "\x1bE", "\x1bM", "\u{84}", "\u{85}", "\u{8d}", "\x1b[?6h", "\x1b[?6l", "\u{9b}?6h"] {
        v.push(s.to_string());
    }
    let five = |e: usize| -> Vec<String> { vec!["".into(), "1".into(), e.to_string(), (e + 1).to_string(), "65535".into()] };
    for f in ['H', 'f'] {
        for r in five(rows) {
            for c in five(cols) {
                v.push(format!("\x1b[{};{}{}", r, c, f));
            }
        }
    }
    v.push("\x1b[2H".into());
    v.push("\x1b[H".into());
    v.push("\x1b[;2H".into());
    // DECSTBM homes the cursor (valid pairs) — invalid pairs leave the margins alone
    for (t, b) in [("", ""), ("1", ""), ("2", ""), ("", "2"), ("2", "1"), ("1", "1"), ("0", "0"), ("1", "65535")] {
        v.push(format!("\x1b[{};{}r", t, b));
    }
    v.push(format!("\x1b[1;{}r", rows));
    v.push(format!("\x1b[1;{}r", rows + 1));
    if rows >= 3 {
        v.push(format!("\x1b[2;{}r", rows - 1));
    }
    v
}

struct Block {
    cols: usize,
    rows: usize,
    margins: Vec<Option<(usize, usize)>>,
    cmds: Vec<String>,
    dims: [usize; 5],
    total: usize,
}

fn blocks() -> Vec<Block> {
    SIZES
        .iter()
        .map(|&(cols, rows)| {
            let margins = margin_options(rows);
            let cmds = commands(cols, rows);
            let dims = [margins.len(), 2, rows, cols + 1, cmds.len()];
            let total = product(&dims);
            Block { cols, rows, margins, cmds, dims, total }
        })
        .collect()
}

fn on_step(rec: &StepRec, t: &mut Tally) {
    use RefFn::*;
    let m = rec.m_pre;
    let outside = rec.pre.row < m.top || rec.pre.row > m.bot;
    let pending = rec.pre.col >= rec.pre.cols;
    let extreme = match rec.f {
        Cuu(n) | Cud(n) | Cuf(n) | Cub(n) | Cnl(n) | Cpl(n) | Cha(n) | Vpa(n) | Vpr(n) | Cht(n) | Cbt(n) => *n == 0 || *n >= 1000,
        Cup(r, c) => *r == 0 || *c == 0 || *r >= 1000 || *c >= 1000,
        _ => false,
    };
    if m.origin {
        t.class("origin_mode");
    }
    if outside {
        t.class("start_outside_region");
    }
    if pending {
        t.class("start_wrap_pending");
    }
    if extreme {
        t.class("param_0_or_huge");
    }
    if m.top > 0 || m.bot + 1 < rec.pre.rows {
        t.class("partial_region");
    }
    if matches!(rec.f, Ri) {
        t.class("RI");
        if m.origin && m.top > 0 {
            t.class("RI_origin_region");
        }
    }
    if m.origin || outside || pending || extreme {
        t.nontrivial = true;
    }
}

pub fn judge(_part: &str, case: &Case, tally: &mut Tally) -> Verdict {
    let v = spec_judge(case, &SpecOpts { own: Class::Cursor, scrollback: true }, tally, &mut on_step);
    if v != Verdict::Pass {
        return v;
    }
    // "none of these commands changes ... " anything but the cursor: hidden modes too
    if case.nums.first() == Some(&1) {
        use RefFn::*;
        let pure = |f: &RefFn| matches!(f, Bs | Cr | Ht | Lf | Nel | Ri | Cuu(_) | Cud(_) | Cuf(_) | Cub(_) | Cnl(_) | Cpl(_) | Cha(_) | Cup(..) | Vpa(_) | Vpr(_) | Cht(_) | Cbt(_));
        if let Some(v) = crate::spec::mode_frame_check(case, &pure, tally) {
            return v;
        }
    }
    Verdict::Pass
}

pub fn gen_random(src: &mut Src, _i: usize) -> Case {
    let mut case = gen::structured_case(src, true, true, 12, 6);
    // finish with a burst of cursor commands
    let (c, r) = last_size(&case);
    let mut g = gen::G::new(c, r);
    g.w = [0; gen::NCAT];
    g.w[gen::CAT_CUP] = 4;
    g.w[gen::CAT_REL] = 8;
    g.w[gen::CAT_C0] = 3;
    g.w[gen::CAT_ESCFE] = 3;
    g.w[gen::CAT_TABMOVE] = 2;
    g.w[gen::CAT_STBM] = 2;
    g.w[gen::CAT_DECMODE] = 2;
    g.w[gen::CAT_FILL] = 1;
    g.w[gen::CAT_SAVE] = 1;
    let s = gen::input(src, &g, 12);
    case.calls.push(crate::case::Call::FeedStr(s));
    case
}

pub fn last_size(case: &Case) -> (usize, usize) {
    let mut sz = (case.cols, case.rows);
    for c in &case.calls {
        if let crate::case::Call::Resize(c, r) = c {
            sz = (*c, *r);
        }
    }
    sz
}

pub fn run(env: &Env) -> PropRun {
    let bl = blocks();
    let total: usize = bl.iter().map(|b| b.total).sum();
    let make = |mut i: usize| -> Option<Case> {
        for b in &bl {
            if i < b.total {
                let d = radix(i, &b.dims)?;
                let margins = b.margins[d[0]];
                let origin = d[1] == 1;
                let s = setup(b.cols, b.rows, margins, origin, d[2], d[3]);
                return Some(Case::new(b.cols, b.rows, None).feed(s).feed(b.cmds[d[4]].clone()).with_nums(vec![(i % 3 == 0) as usize]));
            }
            i -= b.total;
        }
        None
    };
    let j = |c: &Case, t: &mut Tally| judge("", c, t);
    let mut parts = vec![];
    parts.push(run_part(
        env,
        "enum-tiny",
        total,
        true,
        "sizes {1x1,1x4,4x1,3x3,4x5,9x4,17x3} x every margin pair x origin on/off x every start cell incl. wrap-pending x every cursor command x parameter classes {omitted,0,1,2,edge-1,edge,edge+1,2*edge,65535}",
        &make,
        &j,
    ));
    if env.tier == crate::engine::Tier::Thorough {
        // all ordered pairs of a reduced command set on 3x3 (every margin pair, origin mode, start cell)
        let cols = 3usize;
        let rows = 3usize;
        let margins = margin_options(rows);
        let mut cmds: Vec<String> = vec![];
        for (f, edge) in [('A', rows), ('B', rows), ('C', cols), ('D', cols), ('E', rows), ('F', rows), ('e', rows), ('a', cols), ('G', cols), ('d', rows), ('I', 1), ('Z', 1)] {
            for p in ["".to_string(), "2".to_string(), edge.to_string(), "65535".to_string()] {
                cmds.push(format!("\x1b[{}{}", p, f));
            }
        }
        for s in ["\x08", "\r", "\t", "\n", "\x1bD", "\x1bE", "\x1bM", "\x1b[?6h", "\x1b[?6l", "\x1b[H", "\x1b[2;2H", "\x1b[3;3H", "\x1b[65535;65535H", "\x1b[2;3r", "\x1b[r", "\x1b7", "\x1b8", "x"] {
            cmds.push(s.to_string());
        }
        let dims = [margins.len(), 2, rows, cols + 1, cmds.len(), cmds.len()];
        let ptotal = product(&dims);
        let pmake = |i: usize| -> Option<Case> {
            let d = radix(i, &dims)?;
            let s = setup(cols, rows, margins[d[0]], d[1] == 1, d[2], d[3]);
            Some(Case::new(cols, rows, None).feed(s).feed(cmds[d[4]].clone()).feed(cmds[d[5]].clone()))
        };
        parts.push(run_part(env, "enum-pairs-3x3", ptotal, true, "3x3: every margin pair x origin on/off x every start cell incl. wrap-pending x all ordered pairs of 66 commands (12 parameterised moves x {omitted,2,edge,65535}, C0/ESC moves, ?6h/l, CUP forms, DECSTBM, DECSC/DECRC, a print)", &pmake, &j));
    }
    {
        use gen::*;
        let gl = |src: &mut Src, _i: usize| large_case(src, true, &[(CAT_CUP, 6), (CAT_REL, 10), (CAT_C0, 3), (CAT_ESCFE, 3), (CAT_TABMOVE, 4), (CAT_STBM, 2), (CAT_DECMODE, 2), (CAT_FILL, 1), (CAT_SAVE, 1)], 16);
        parts.push(random_part(env, "large-screens", env.tier.scale(800, 40), &gl, &j));
    }
    let n = env.tier.scale(60_000, 40);
    {
        let mut ml: Vec<Case> = vec![];
        let leaves = ["\x1b[?1047;6l", "\x1b[?47;6l", "\x1b[?6;1047l", "\x1b[?1047;6;7l", "\x1b[?1049;6l", "\x1b[?6;1049l", "\x1b[?1047l\x1b[?6l", "\x1b[?1047;6h", "\x1b[?47;7;6l", "\u{9b}?1047;25;6l"];
        for (cols, rows) in [(4usize, 3usize), (6, 4)] {
            for enter in ["\x1b[?1047h", "\x1b[?1049h", "\x1b[?47h"] {
                for (dc, dr) in [(0isize, 2isize), (3, 0), (-2, 0), (0, -1), (2, 2), (-1, 1)] {
                    for leave in leaves {
                        let text: String = (0..cols * (rows + 3)).map(|k| (b'a' + (k % 26) as u8) as char).collect();
                        let mut c = Case::new(cols, rows, None).feed(format!("{}\x1b[2;2H\x1b[?6h{}xy\x1b[2;1H", text, enter));
                        c.calls.push(Call::Resize((cols as isize + dc).max(1) as usize, (rows as isize + dr).max(1) as usize));
                        c.calls.push(Call::FeedStr(leave.to_string()));
                        c.calls.push(Call::FeedStr("\x1b[B\x1b[C".into()));
                        ml.push(c);
                    }
                }
            }
        }
        // Direct reading of "toggling origin mode homes it": when, in the list fed last but
        // one, the origin toggle comes after the screen switch, the cursor must be in the home
        // position when that call returns - the one-step model cannot say so, because it
        // treats the cursor as unspecified across a return to a parked, resized primary.
        // (Written against the shape of the case, not its indices: the shrinker removes calls.)
        fn homes_last(l: &str) -> bool {
            let Some(rest) = l.strip_prefix("\x1b[?").or_else(|| l.strip_prefix("\u{9b}?")) else { return false };
            let Some(body) = rest.strip_suffix('l').or_else(|| rest.strip_suffix('h')) else { return false };
            if body.is_empty() || !body.chars().all(|ch| ch.is_ascii_digit() || ch == ';') {
                return false;
            }
            let toks: Vec<&str> = body.split(';').filter(|t| !t.is_empty()).collect();
            let p6 = toks.iter().rposition(|t| *t == "6");
            let pa = toks.iter().rposition(|t| matches!(*t, "47" | "1047" | "1049"));
            matches!((p6, pa), (Some(a), Some(b)) if a > b) && toks.iter().all(|t| matches!(*t, "6" | "7" | "25" | "47" | "1047" | "1049"))
        }
        let jm = |c: &Case, t: &mut Tally| -> Verdict {
            let v = judge("", c, t);
            let n = c.calls.len();
            if v != Verdict::Pass || n < 2 {
                return v;
            }
            let Call::FeedStr(l) = &c.calls[n - 2] else { return v };
            if !homes_last(l) || c.calls.iter().any(|x| matches!(x, Call::FeedStr(s) if s.as_bytes().windows(2).any(|w| w[1] == b'r' && (w[0].is_ascii_digit() || w[0] == b'[' || w[0] == b';')))) {
                return v;
            }
            let mut vt = crate::case::new_vt(c.cols, c.rows, c.limit);
            crate::case::apply_calls(&mut vt, &c.calls[..n - 1]);
            let cur = vt.cursor();
            if (cur.col, cur.row) != (0, 0) {
                return Verdict::fail("mode-list-home", format!("after {:?} (origin mode toggled last, full-screen margins) the cursor is at ({},{}), not in the home position", l, cur.col, cur.row));
            }
            Verdict::Pass
        };
        let j = jm;
        parts.push(run_part(env, "enum-mode-lists-after-excursion", ml.len(), true, "2 sizes x 3 ways into the alternate screen x 6 resizes during the excursion x 10 DECRST/DECSET lists that switch back and toggle origin mode (or other modes) in one sequence, in both orders", &|i| ml.get(i).cloned(), &j));
    }
    parts.push(random_part(env, "random-histories", n, &gen_random, &j));
    PropRun {
        parts,
        meta: EvidenceMeta {
            rule: "enumerated: every (size, margins, origin, start cell, command, parameter class) once; random: structured histories with resizes followed by a burst of cursor commands. Non-trivial = a judged cursor step that starts in origin mode, outside the scroll region, from the wrap-pending column, or with a 0/omitted-as-0/>=1000 parameter; distinct by case hash.".into(),
            assumptions: vec![
                "mode tracker (margins, origin, tab stops) follows the property statements; it is shared with C04/C06/C07/C18".into(),
                "hidden wrap-pending state is observed as cursor().col == cols".into(),
            ],
            not_compared: vec!["cursor after an invalid DECSTBM".into(), "cursor column after IL/DL".into(), "cells/cursor after returning from the alternate screen to a re-flowed primary".into()],
        },
        extra: serde_json::json!({}),
    }
}
