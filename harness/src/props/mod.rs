//! One module per property. Each exposes `run(env) -> PropRun` (all parts of the check)
//! and `judge(part, case, tally) -> Verdict` (used for replays and shrinking).

use crate::case::{Case, Verdict};
use crate::engine::{Env, EvidenceMeta, PartReport, Tally};

pub mod c01;
pub mod c02;
pub mod c03;
pub mod c04;
pub mod c05;
pub mod c06;
pub mod c07;
pub mod c08;
pub mod c09;
pub mod c10;
pub mod c11;
pub mod c12;
pub mod c13;
pub mod c14;
pub mod c15;
pub mod c16;
pub mod c17;
pub mod c18;
pub mod c19;
pub mod c20;

pub struct PropRun {
    pub parts: Vec<PartReport>,
    pub meta: EvidenceMeta,
    pub extra: serde_json::Value,
}

pub const ALL: [&str; 20] = ["C01", "C02", "C03", "C04", "C05", "C06", "C07", "C08", "C09", "C10", "C11", "C12", "C13", "C14", "C15", "C16", "C17", "C18", "C19", "C20"];

pub fn run(env: &Env) -> Option<PropRun> {
    match env.prop.as_str() {
        "C03" => Some(c03::run(env)),
        "C04" => Some(c04::run(env)),
        "C05" => Some(c05::run(env)),
        "C06" => Some(c06::run(env)),
        "C07" => Some(c07::run(env)),
        "C01" => Some(c01::run(env)),
        "C02" => Some(c02::run(env)),
        "C08" => Some(c08::run(env)),
        "C09" => Some(c09::run(env)),
        "C10" => Some(c10::run(env)),
        "C11" => Some(c11::run(env)),
        "C12" => Some(c12::run(env)),
        "C13" => Some(c13::run(env)),
        "C14" => Some(c14::run(env)),
        "C15" => Some(c15::run(env)),
        "C16" => Some(c16::run(env)),
        "C17" => Some(c17::run(env)),
        "C18" => Some(c18::run(env)),
        "C19" => Some(c19::run(env)),
        "C20" => Some(c20::run(env)),
        _ => None,
    }
}

pub fn judge(prop: &str, part: &str, case: &Case, tally: &mut Tally) -> Option<Verdict> {
    match prop {
        "C03" => Some(c03::judge(part, case, tally)),
        "C04" => Some(c04::judge(part, case, tally)),
        "C05" => Some(c05::judge(part, case, tally)),
        "C06" => Some(c06::judge(part, case, tally)),
        "C07" => Some(c07::judge(part, case, tally)),
        "C01" => Some(c01::judge(part, case, tally)),
        "C02" => Some(c02::judge(part, case, tally)),
        "C08" => Some(c08::judge(part, case, tally)),
        "C09" => Some(c09::judge(part, case, tally)),
        "C10" => Some(c10::judge(part, case, tally)),
        "C11" => Some(c11::judge(part, case, tally)),
        "C12" => Some(c12::judge(part, case, tally)),
        "C13" => Some(c13::judge(part, case, tally)),
        "C14" => Some(c14::judge(part, case, tally)),
        "C15" => Some(c15::judge(part, case, tally)),
        "C16" => Some(c16::judge(part, case, tally)),
        "C17" => Some(c17::judge(part, case, tally)),
        "C18" => Some(c18::judge(part, case, tally)),
        "C19" => Some(c19::judge(part, case, tally)),
        "C20" => Some(c20::judge(part, case, tally)),
        _ => None,
    }
}

/// decode `i` in a mixed-radix system; returns None when `i` is out of range
pub fn radix(mut i: usize, dims: &[usize]) -> Option<Vec<usize>> {
    let mut out = Vec::with_capacity(dims.len());
    for d in dims {
        if *d == 0 {
            return None;
        }
        out.push(i % d);
        i /= d;
    }
    if i > 0 {
        None
    } else {
        Some(out)
    }
}

pub fn product(dims: &[usize]) -> usize {
    dims.iter().product()
}

/// (part name, generated case) for the structured fuzz target: the first choice of the
/// byte source selects among the property's random profiles.
pub fn fuzz_gen(prop: &str, src: &mut crate::src::Src) -> Option<(&'static str, Case)> {
    let k = src.below(4);
    Some(match prop {
        "C01" => match k {
            0 => ("random-small", c01::gen_small(src, 0)),
            1 => ("random-any-size", c01::gen_big(src, 0)),
            _ => ("garbage", c01::gen_garbage(src, 0)),
        },
        "C02" => match k {
            0 => ("raw-histories", c02::gen_raw(src, 0)),
            1 => ("raw-shapes", c02::gen_shapes(src, 0)),
            2 => ("tracked-histories", c02::gen_tracked(src, 0)),
            _ => ("tracked-shapes", c02::gen_shapes(src, 0)),
        },
        "C03" => match k {
            0 | 1 => ("random-streams", c03::gen_stream(src, 0)),
            _ => ("class-soup", c03::gen_soup(src, 0)),
        },
        "C04" => match k {
            0 => ("pending-resize", c04::gen_pending_resize(src, 0)),
            _ => ("random-histories", c04::gen_random(src, 0)),
        },
        "C05" => ("random-histories", c05::gen_random(src, 0)),
        "C06" => ("random-histories", c06::gen_random(src, 0)),
        "C07" => ("random-histories", c07::gen_random(src, 0)),
        "C08" => ("random-sgr-sequences", c08::gen_case(src, 0)),
        "C09" => ("random-texts", c09::gen_case(src, 0)),
        "C10" => match k {
            0 => ("paragraphs", c10::gen_paragraphs(src, 0)),
            1 => ("regions-and-origin", c10::gen_regions(src, 0)),
            _ => ("random-histories", c10::gen_random(src, 0)),
        },
        "C11" => match k {
            0 => ("short-every-cut", c11::gen_short_all_cuts(src, 0)),
            1 => ("origin-outside-random", c11::gen_origin_outside(src, 0)),
            _ => ("random-histories", c11::gen_case(src, 0)),
        },
        "C12" => match k {
            0 => ("short-all-cuts", c12::gen_short(src, 0)),
            1 => ("raw", c12::gen_raw(src, 0)),
            _ => ("structured", c12::gen_structured(src, 0)),
        },
        "C13" => ("random-histories", c13::gen_case(src, 0)),
        "C14" => match k {
            0 | 1 => ("wrapped-lines", c14::gen_wrapped(src, 0)),
            _ => ("random-sessions", c14::gen_case(src, 0)),
        },
        "C15" => match k {
            0 | 1 => ("single-op-calls", c15::gen_single_ops(src, 0)),
            _ => ("multi-op-calls", c15::gen_multi(src, 0)),
        },
        "C16" => match k {
            0 | 1 => ("random-no-resize", c16::gen_plain(src, 0)),
            _ => ("random-with-resize", c16::gen_resize(src, 0)),
        },
        "C17" => match k {
            0 | 1 => ("random-pairs", c17::gen_pairs(src, 0)),
            _ => ("random-histories", c17::gen_case(src, 0)),
        },
        "C18" => ("random-sequences", c18::gen_random(src, 0)),
        "C19" => ("random-histories", c19::gen_case(src, 0)),
        "C20" => match k {
            0 => ("long-payloads", c20::gen_long_payload(src, 0)),
            _ => ("random-items", c20::gen_case(src, 0)),
        },
        _ => return None,
    })
}
