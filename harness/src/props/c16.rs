//! C16 — the alternate screen never disturbs the primary screen.

use super::PropRun;
use crate::case::{new_vt, Call, Case, Verdict};
use crate::engine::{random_part, run_part, Env, EvidenceMeta, Tally};
use crate::gen::{self, G};
use crate::model::{row_of, PenSpec};
use crate::observe::{geometry_violation, logical, logical_cells, pens_relation, trim_sp};
use crate::reffn::RefFn;
use crate::src::Src;
use crate::walk::{Event, WalkEnd, Walker};

struct Snapshot {
    lines: Vec<avt::Line>,
    text: Vec<String>,
    cursor: (usize, usize),
    cols: usize,
    logical: Vec<String>,
    logical_cursor: (usize, usize),
    cells: Vec<Vec<crate::model::CellSpec>>,
    size: (usize, usize),
    enter_mode: u16,
    resized: bool,
    nonblank: bool,
}

/// relation (4) of C10 from the first line: the new list is the old list cut short
fn cut_short_relation(old: &[String], new: &[String]) -> Option<String> {
    let mut cut = false;
    for i in 0..old.len().max(new.len()) {
        let a = new.get(i).map(|x| trim_sp(x)).unwrap_or("");
        let b = old.get(i).map(|x| trim_sp(x)).unwrap_or("");
        if cut {
            if !a.is_empty() {
                return Some(format!("logical line {} has content {:?} after an earlier line was cut short", i, a));
            }
        } else if a != b {
            if b.starts_with(a) {
                cut = true;
            } else {
                return Some(format!("logical line {} altered: was {:?}, now {:?}", i, b, a));
            }
        }
    }
    None
}

pub fn judge(_part: &str, case: &Case, tally: &mut Tally) -> Verdict {
    let mut w = Walker::new(case);
    let mut snap: Option<Snapshot> = None;
    let mut scrolled_on_alt = false;
    let end = w.walk(case, &mut |wk, ev| {
        match ev {
            Event::Step(rec) => {
                // which mode number entered / left?
                let mode_of = |f: &RefFn| -> u16 {
                    match f {
                        RefFn::Decset(ms) | RefFn::Decrst(ms) => ms.iter().copied().filter(|m| *m == 1047 || *m == 1049).last().unwrap_or(0),
                        _ => 0,
                    }
                };
                if rec.entered_alt {
                    // P = the primary right before the switch: reconstruct from the lines
                    // recorded before the step (record_lines) — cheaper: a replica of the
                    // history without this step
                    let mut hist = wk.hist.clone();
                    hist.pop();
                    let mut p = new_vt(wk.init_size.0, wk.init_size.1, wk.limit);
                    crate::case::apply_calls(&mut p, &hist);
                    let (lg, lc) = logical(&p);
                    let c = p.cursor();
                    let nonblank = p.lines().iter().any(|l| l.text().trim().len() > 0);
                    // a switching sequence may carry several modes (e.g. ?1049;6h): the
                    // statement's cursor clause is only judged for a pure 1049 switch
                    let pure = matches!(rec.f, RefFn::Decset(ms) if ms.len() == 1);
                    snap = Some(Snapshot {
                        lines: p.lines().to_vec(),
                        text: p.text(),
                        cursor: (c.col, c.row),
                        cols: p.size().0,
                        logical: lg,
                        logical_cursor: lc,
                        cells: logical_cells(&p),
                        size: p.size(),
                        enter_mode: if pure { mode_of(rec.f) } else { 0 },
                        resized: false,
                        nonblank,
                    });
                    scrolled_on_alt = false;
                    tally.steps += 1;
                    // every entry presents a blank alternate screen filled with the current pen
                    let pen: PenSpec = rec.m_pre.pen;
                    // (for ?1049;...h lists containing SGR-irrelevant modes the pen is unchanged)
                    for (r, line) in wk.vt.view().iter().enumerate() {
                        for (c, cell) in row_of(line).iter().enumerate() {
                            if cell.0 != ' ' || cell.1 != pen {
                                return Some(Verdict::fail("entry-not-blank", format!("on entering the alternate screen, cell (col {}, row {}) is {:?}, expected a blank with the current pen {:?}", c, r, cell, pen)));
                            }
                        }
                    }
                    if wk.vt.lines().len() != wk.rows {
                        return Some(Verdict::fail("entry-lines", format!("on entering the alternate screen lines().len() = {} != rows = {}", wk.vt.lines().len(), wk.rows)));
                    }
                } else if rec.left_alt {
                    let Some(p) = snap.take() else { return None };
                    tally.steps += 1;
                    let leave_mode = if matches!(rec.f, RefFn::Decrst(ms) if ms.len() == 1) { mode_of(rec.f) } else { 0 };
                    if p.enter_mode != leave_mode && p.enter_mode != 0 && leave_mode != 0 {
                        tally.class("mixed_enter_leave");
                    }
                    if p.lines.len() > p.size.1 {
                        tally.class("primary_with_scrollback");
                    }
                    if let Some(m) = geometry_violation(&wk.vt, (wk.cols, wk.rows)) {
                        return Some(Verdict::fail("geometry", format!("after leaving the alternate screen: {}", m)));
                    }
                    let pair_1049 = p.enter_mode == 1049 && leave_mode == 1049;
                    if !p.resized {
                        if wk.vt.lines() != &p.lines[..] {
                            let n = wk.vt.lines().len();
                            let mut at = 0;
                            while at < n && at < p.lines.len() && wk.vt.lines()[at] == p.lines[at] {
                                at += 1;
                            }
                            return Some(Verdict::fail(
                                "primary-changed",
                                format!("after the excursion lines() of the primary differ from before entering (size unchanged): {} vs {} lines, first difference at {}: {:?} vs {:?}", n, p.lines.len(), at, wk.vt.lines().get(at), p.lines.get(at)),
                            ));
                        }
                        if wk.vt.text() != p.text {
                            return Some(Verdict::fail("text-changed", "text() after the excursion differs from before entering".to_string()));
                        }
                        if pair_1049 {
                            let c = wk.vt.cursor();
                            if (c.col.min(p.cols - 1), c.row) != (p.cursor.0.min(p.cols - 1), p.cursor.1) {
                                return Some(Verdict::fail("1049-cursor", format!("1049 excursion: cursor before entering ({},{}), after leaving ({},{})", p.cursor.0, p.cursor.1, c.col, c.row)));
                            }
                            tally.class("pair_1049");
                        }
                    } else {
                        tally.class("with_resize");
                        if wk.limit.is_none() {
                            let (lg, lc) = logical(&wk.vt);
                            if let Some(m) = cut_short_relation(&p.logical, &lg) {
                                return Some(Verdict::fail("resized-altered", format!("after an excursion with resizes the primary's logical lines were altered: {}", m)));
                            }
                            if let Some(m) = pens_relation(&p.cells, &logical_cells(&wk.vt), 0) {
                                return Some(Verdict::fail("resized-pens", format!("after an excursion with resizes a pen of the primary's text changed: {}", m)));
                            }
                            if pair_1049 {
                                tally.class("pair_1049_with_resize");
                                let tl = p.logical.get(p.logical_cursor.0).map(|l| trim_sp(l).chars().count()).unwrap_or(0);
                                if lc.0 != p.logical_cursor.0 {
                                    return Some(Verdict::fail("resized-1049-line", format!("1049 excursion with resizes: cursor was in logical line {}, is in {}", p.logical_cursor.0, lc.0)));
                                }
                                let on_char = p.logical_cursor.1 < tl && p.cursor.0 < p.cols;
                                if on_char && lc.1 != p.logical_cursor.1 {
                                    return Some(Verdict::fail("resized-1049-offset", format!("1049 excursion with resizes: cursor was on character {} of its logical line, is on {}", p.logical_cursor.1, lc.1)));
                                }
                                for i in 0..p.logical_cursor.0 {
                                    if lg.get(i).map(|x| trim_sp(x)) != Some(trim_sp(&p.logical[i])) {
                                        return Some(Verdict::fail("resized-1049-above", format!("logical line {} above the cursor changed", i)));
                                    }
                                }
                            }
                        }
                    }
                    if scrolled_on_alt && p.nonblank {
                        tally.nontrivial = true;
                    }
                } else if wk.modes.alt {
                    if let Some(p) = &snap {
                        if rec.eff.scrolled.is_some() || matches!(rec.f, RefFn::Ed(_) | RefFn::Decaln) {
                            scrolled_on_alt = true;
                        }
                        if !p.resized {
                            tally.steps += 1;
                            if wk.vt.text() != p.text {
                                return Some(Verdict::fail("text-during", format!("text() changed while the alternate screen is showing (after {:?})", rec.f)));
                            }
                        }
                    }
                }
                None
            }
            Event::Resized { .. } => {
                if let Some(p) = &mut snap {
                    if wk.modes.alt && (wk.cols, wk.rows) != p.size {
                        p.resized = true;
                    }
                }
                None
            }
            Event::CallEnd { .. } => None,
        }
    });
    match end {
        WalkEnd::Done => Verdict::Pass,
        WalkEnd::Stopped(v) => v,
    }
}

pub fn gen_case(src: &mut Src, with_resize: bool) -> Case {
    let (cols, rows) = if src.chance(1, 30) { (40, 10) } else { gen::small_size(src) };
    let mut g = G::new(cols, rows).no_alt().no_ris();
    g.w[gen::CAT_TEXT] = 16;
    g.w[gen::CAT_C0] = 10;
    g.w[gen::CAT_FILL] = 5;
    let limit = if with_resize && src.chance(2, 3) { None } else { gen::limit(src) };
    let mut case = Case::new(cols, rows, limit);
    case.calls.push(Call::FeedStr(gen::input(src, &g, 14)));
    // the parked alternate buffer is only brought up to date when it is shown: an earlier
    // short excursion (entered, scrolled and left inside one call) and resizes while the
    // primary is showing must not show through at the next entry
    if src.chance(1, 3) {
        let m = *src.pick(&[47usize, 1047, 1049]);
        let mut s = format!("{}\x1b[?{}h", *src.pick(&["", "\x1b[44m"]), m);
        for k in 0..src.range(0, rows + 3) {
            s.push_str(&format!("old{}\n", k));
        }
        s.push_str(&format!("\x1b[?{}l", m));
        case.calls.push(Call::FeedStr(s));
    }
    if src.chance(1, 2) {
        let (c, r) = gen::resize_target(src, &g);
        g.cols = c;
        g.rows = r;
        case.calls.push(Call::Resize(c, r));
        if src.chance(1, 2) {
            case.calls.push(Call::FeedStr(gen::input(src, &g, 4)));
        }
    }
    let (cols, rows) = (g.cols, g.rows);
    let pen = *src.pick(&["", "\x1b[41m", "\x1b[1;32m", "\x1b[7m"]);
    let enter = *src.pick(&[47usize, 1047, 1049, 1049]);
    let leave = if src.chance(1, 2) { enter } else { *src.pick(&[47usize, 1047, 1049]) };
    case.calls.push(Call::FeedStr(format!("{}\x1b[?{}h", pen, enter)));
    // on the alternate screen: anything except leaving it or a hard reset
    let mut ga = G::new(cols, rows).no_ris();
    ga.alt = true;
    ga.alt_leave = false;
    ga.w[gen::CAT_C0] = 12;
    ga.w[gen::CAT_LINES] = 5;
    ga.w[gen::CAT_ERASE] = 5;
    ga.w[gen::CAT_DECALN] = 2;
    let n = src.range(1, 6);
    for _ in 0..n {
        if with_resize && src.chance(2, 5) {
            let (c, r) = gen::resize_target(src, &ga);
            ga.cols = c;
            ga.rows = r;
            case.calls.push(Call::Resize(c, r));
        } else {
            case.calls.push(Call::FeedStr(gen::input(src, &ga, 8)));
        }
    }
    case.calls.push(Call::FeedStr(format!("\x1b[?{}l", leave)));
    // a second excursion, possibly after a resize on the primary screen
    if src.chance(1, 3) {
        if src.chance(1, 2) {
            let (c, r) = gen::resize_target(src, &ga);
            ga.cols = c;
            ga.rows = r;
            case.calls.push(Call::Resize(c, r));
        }
        let pen = *src.pick(&["", "\x1b[42m", "\x1b[4;35m", "\x1b[m"]);
        let m = *src.pick(&[47usize, 1047, 1049]);
        case.calls.push(Call::FeedStr(format!("{}\x1b[?{}h", pen, m)));
        case.calls.push(Call::FeedStr(gen::input(src, &ga, 4)));
        case.calls.push(Call::FeedStr(format!("\x1b[?{}l", *src.pick(&[47usize, 1047, 1049]))));
    }
    case
}

/// primary with hundreds to thousands of scrollback lines, large sizes
pub fn gen_large(src: &mut Src, _i: usize) -> Case {
    let with_resize = src.below(2) == 0;
    let mut case = gen_case(src, with_resize);
    let extra = src.range(100, 1500);
    let mut s = String::new();
    for k in 0..extra {
        s.push_str(&format!("history line {}\r\n", k));
    }
    // (the screen stays small: the judge walks function by function and observes the whole
    // view at every step, so a large view times ~25k steps would only burn time)
    case.calls.insert(0, Call::FeedStr(s));
    if src.chance(1, 2) {
        case.limit = *src.pick(&[None, Some(100), Some(255), Some(256), Some(1000)]);
    }
    case
}

pub fn gen_plain(src: &mut Src, _i: usize) -> Case {
    gen_case(src, false)
}
pub fn gen_resize(src: &mut Src, _i: usize) -> Case {
    gen_case(src, true)
}

/// enumerated: all 9 enter/leave pairs x a few primaries x a few excursions, with and
/// without a resize round trip
fn enum_pairs() -> Vec<Case> {
    let mut v = vec![];
    let primaries = ["", "hello\r\nworld", "0123456789abcdefghij\r\nxy\x1b[1;3H", "a\nb\nc\nd\ne\nf\ng\x1b7\x1b[2;2H", "\x1b[2;3r\x1b[?6hq\x1b[44m"];
    let excursions = ["", "junk\n\n\n\n\n\n\n\nmore", "\x1b#8\x1b[2J\x1b[H\x1b[3L", "\x1b7\x1b[9;9Hzz\x1b8\x1b[!p", "\x1b[?6h\x1b[2;2r\n\n\n\x1bM\x1bM\x1bM"];
    for (cols, rows) in [(6usize, 3usize), (10, 4)] {
        for limit in [None, Some(0), Some(3)] {
            for enter in [47, 1047, 1049] {
                for leave in [47, 1047, 1049] {
                    for p in primaries {
                        for e in excursions {
                            for rs in [0usize, 1, 2, 3, 4, 5] {
                                let mut c = Case::new(cols, rows, limit).feed(p);
                                // 4, 5: an earlier one-call excursion that scrolled, then a resize
                                // while the primary is showing, before the entry that is judged
                                if rs >= 4 {
                                    c = c.feed("\x1b[?1047h1\n2\n3\n4\n5\n6\x1b[?1047l");
                                    c.calls.push(if rs == 4 { Call::Resize(cols + 3, rows + 2) } else { Call::Resize(cols - 2, rows) });
                                }
                                let mut c = c.feed(format!("\x1b[45m\x1b[?{}h", enter)).feed(e);
                                match rs {
                                    1 => c.calls.push(Call::Resize(cols - 2, rows + 1)),
                                    2 => {
                                        c.calls.push(Call::Resize(cols + 3, rows - 1));
                                        c.calls.push(Call::FeedStr("x\n".into()));
                                        c.calls.push(Call::Resize(cols, rows));
                                    }
                                    3 => {
                                        c.calls.push(Call::Resize(2, 2));
                                        c.calls.push(Call::Resize(cols * 2, rows * 2));
                                    }
                                    _ => {}
                                }
                                c.calls.push(Call::FeedStr(format!("\x1b[?{}l", leave)));
                                v.push(c);
                            }
                        }
                    }
                }
            }
        }
    }
    v
}

pub fn run(env: &Env) -> PropRun {
    let j = |c: &Case, t: &mut Tally| judge("", c, t);
    let mut parts = vec![];
    let ep = enum_pairs();
    parts.push(run_part(env, "enum-pairs", ep.len(), true, "2 sizes x 3 limits x all 9 enter/leave mode pairs x 5 primaries x 5 excursions x {no resize, one resize, resize round trip, shrink+grow}", &|i| ep.get(i).cloned(), &j));
    parts.push(random_part(env, "large-primary", env.tier.scale(600, 30), &gen_large, &j));
    parts.push(random_part(env, "random-no-resize", env.tier.scale(50_000, 30), &gen_plain, &j));
    parts.push(random_part(env, "random-with-resize", env.tier.scale(50_000, 30), &gen_resize, &j));
    PropRun {
        parts,
        meta: EvidenceMeta {
            rule: "The primary is snapshotted (on a replica) right before every switch to the alternate screen. On entry the view must be all blanks carrying the current pen and lines().len() == rows; while on the alternate screen (size unchanged) text() must stay equal after every function; after leaving with the size unchanged lines() (exact Line equality: cells, pens, marks, scrollback) and text() must equal the snapshot and, for a pure 1049/1049 pair, the cursor too; with resizes in between, geometry invariants hold, the logical lines are the snapshot's cut short at most, and for a 1049/1049 pair (unlimited scrollback) the cursor is in the same logical line, on the same character, with the lines above unchanged. Non-trivial = the excursion scrolled or erased on the alternate screen and the primary had non-blank content.".into(),
            assumptions: vec!["which screen is showing is tracked by the reference parser + mode tracker; inputs on the alternate screen are generated without switch-off and without RIS (re-entering is allowed)".into()],
            not_compared: vec!["cursor after leaving for mixed or non-1049 pairs".into(), "logical-line relations under a finite scrollback limit when resized".into()],
        },
        extra: serde_json::json!({}),
    }
}
