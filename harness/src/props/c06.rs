//! C06 — scrolling stays inside its region and feeds the scrollback in order.

use super::c05::param_classes;
use super::{product, radix, PropRun};
use crate::case::{Call, Case, Verdict};
use crate::engine::{random_part, run_part, Env, EvidenceMeta, Tally, Tier};
use crate::gen;
use crate::spec::{spec_judge, Class, SpecOpts};
use crate::src::Src;
use crate::walk::StepRec;

pub const SIZES: [(usize, usize); 6] = [(1, 1), (2, 2), (3, 3), (3, 4), (4, 5), (2, 6)];

/// DECSTBM argument strings: none, every valid pair, and invalid ones
fn stbm_options(rows: usize) -> Vec<String> {
    let mut v = vec![String::new()];
    for t in 1..=rows {
        for b in (t + 1)..=rows {
            v.push(format!("\x1b[{};{}r", t, b));
        }
    }
    // invalid: top >= bottom, bottom > rows; defaulted forms
    v.push(format!("\x1b[{};{}r", rows, rows));
    v.push("\x1b[2;1r".into());
    v.push(format!("\x1b[1;{}r", rows + 1));
    v.push("\x1b[0;0r".into());
    v.push("\x1b[;r".into());
    v.push("\x1b[2r".into());
    v.push(format!("\x1b[;{}r", rows.saturating_sub(1).max(1)));
    v.push("\x1b[65535;65535r".into());
    v.push("\x1b[1;65535r".into());
    v
}

const PENS: [&str; 3] = ["", "\x1b[44m", "\x1b[1;31;7m"];

fn commands(cols: usize, rows: usize) -> Vec<String> {
    let mut v: Vec<String> = vec!["\n".into(), "\x0b".into(), "\x0c".into(), "\x1bD".into(), "\x1bE".into(), "\u{84}".into(), "\u{85}".into(), "\x1bM".into(), "\u{8d}".into()];
    // a print that wraps: go to the last column of the current row, print two characters
    v.push(format!("\x1b[{}Gxy", cols));
    for f in ['S', 'T', 'L', 'M'] {
        for p in param_classes(rows) {
            v.push(format!("\x1b[{}{}", p, f));
        }
    }
    v
}

/// screens: 0 primary unlimited, 1 primary limit 0, 2 primary limit 3, 3 alternate (unlimited primary)
fn screen_limit(k: usize) -> Option<usize> {
    match k {
        1 => Some(0),
        2 => Some(3),
        _ => None,
    }
}

fn on_step(rec: &StepRec, t: &mut Tally) {
    let m = rec.m_pre;
    let rows = rec.pre.rows;
    if let Some((top, bot, n, up)) = rec.eff.scrolled {
        let h = bot - top + 1;
        let partial = top > 0 || bot + 1 < rows;
        let non_default_pen = m.pen != crate::model::PenSpec::default();
        if partial {
            t.class("partial_range");
        }
        if n >= h {
            t.class("count_ge_height");
        }
        if non_default_pen {
            t.class("non_default_pen");
        }
        if top == 0 && partial && up {
            t.class("top_anchored_partial_up");
        }
        if m.alt {
            t.class("alternate_screen");
        }
        if rec.pre.row > m.bot || rec.pre.row < m.top {
            t.class("cursor_outside_region");
        }
        if !rec.eff.scrolled_off.is_empty() {
            t.class("feeds_scrollback");
        }
        if up {
            t.class("scroll_up");
        } else {
            t.class("scroll_down");
        }
        if rec.pre.wraps.iter().any(|w| *w) {
            t.class("soft_wrap_marks_present");
        }
        if partial || n >= h || non_default_pen || m.alt || rec.pre.row > m.bot {
            t.nontrivial = true;
        }
    } else if matches!(rec.f, crate::reffn::RefFn::Decstbm(..)) {
        if rec.eff.cursor_unspecified {
            t.class("invalid_decstbm");
        } else {
            t.class("valid_decstbm");
        }
    }
}

pub fn judge(_part: &str, case: &Case, tally: &mut Tally) -> Verdict {
    let v = spec_judge(case, &SpecOpts { own: Class::Scroll, scrollback: true }, tally, &mut on_step);
    if v != Verdict::Pass {
        return v;
    }
    if case.nums.first() == Some(&1) {
        use crate::reffn::RefFn::*;
        let pure = |f: &crate::reffn::RefFn| matches!(f, Lf | Nel | Ri | Su(_) | Sd(_) | Il(_) | Dl(_) | Print(_) | Cha(_));
        if let Some(v) = crate::spec::mode_frame_check(case, &pure, tally) {
            return v;
        }
    }
    Verdict::Pass
}

pub fn gen_random(src: &mut Src, _i: usize) -> Case {
    use gen::*;
    let mut case = burst_case(
        src,
        true,
        false,
        10,
        6,
        &[(CAT_LINES, 10), (CAT_C0, 6), (CAT_ESCFE, 5), (CAT_STBM, 4), (CAT_TEXT, 4), (CAT_FILL, 3), (CAT_CUP, 4), (CAT_SGR, 2), (CAT_ALT, 1), (CAT_DECMODE, 1), (CAT_REL, 2)],
        16,
    );
    if src.chance(1, 4) {
        case.limit = *src.pick(&[Some(0), Some(3), Some(10)]);
    }
    // one character at a time through Vt::feed(): no end-of-call trimming happens there, and
    // "the alternate screen keeps none" must hold all the same
    if src.chance(1, 3) {
        for c in case.calls.iter_mut() {
            if let Call::FeedStr(s) = c {
                *c = Call::Feed(std::mem::take(s));
            }
        }
    }
    case
}

/// all sequences of `len` scroll commands on a tiny screen with content
fn seq_blocks(len: usize) -> Vec<(usize, usize, Vec<String>, Vec<String>, Vec<usize>, usize)> {
    let mut out = vec![];
    for &(cols, rows) in &[(1usize, 1usize), (2, 2), (3, 3)] {
        let stbm = stbm_options(rows);
        let mut cmds: Vec<String> = vec!["\n".into(), "\x1bM".into(), "\x1bE".into(), format!("\x1b[{}Gxy", cols), "\x1b[H".into(), format!("\x1b[{};1H", rows)];
        if rows >= 2 {
            cmds.push("\x1b[2;1H".into());
        }
        for f in ['S', 'T', 'L', 'M'] {
            for p in ["", "2", "65535"] {
                cmds.push(format!("\x1b[{}{}", p, f));
            }
        }
        let mut dims = vec![stbm.len(), 3usize];
        for _ in 0..len {
            dims.push(cmds.len());
        }
        let total = product(&dims);
        out.push((cols, rows, stbm, cmds, dims, total));
    }
    out
}

pub fn run(env: &Env) -> PropRun {
    struct Block {
        cols: usize,
        rows: usize,
        stbm: Vec<String>,
        cmds: Vec<String>,
        dims: [usize; 6],
        total: usize,
    }
    let blocks: Vec<Block> = SIZES
        .iter()
        .map(|&(cols, rows)| {
            let stbm = stbm_options(rows);
            let cmds = commands(cols, rows);
            let dims = [stbm.len(), rows, PENS.len(), 4, 3, cmds.len()];
            let total = product(&dims);
            Block { cols, rows, stbm, cmds, dims, total }
        })
        .collect();
    let total: usize = blocks.iter().map(|b| b.total).sum();
    let make = |mut i: usize| -> Option<Case> {
        for b in &blocks {
            if i < b.total {
                let d = radix(i, &b.dims)?;
                let mut s = String::new();
                if d[3] == 3 {
                    s.push_str("\x1b[?1047h");
                }
                s.push_str(&gen::fill_screen_mode(b.cols, b.rows, d[4]));
                s.push_str(&b.stbm[d[0]]);
                s.push_str(PENS[d[2]]);
                s.push_str(&format!("\x1b[{};1H", d[1] + 1));
                return Some(Case::new(b.cols, b.rows, screen_limit(d[3])).feed(s).feed(b.cmds[d[5]].clone()).with_nums(vec![(i % 4 == 0) as usize]));
            }
            i -= b.total;
        }
        None
    };
    let j = |c: &Case, t: &mut Tally| judge("", c, t);
    let mut parts = vec![];
    parts.push(run_part(
        env,
        "enum-tiny",
        total,
        true,
        "sizes {1x1,2x2,3x3,3x4,4x5,2x6} x {no DECSTBM, every valid pair, 9 invalid/defaulted forms} x every cursor row x 3 pens x {primary unlimited, limit 0, limit 3, alternate} x {wrapped, unwrapped, sparse (blank rows / blank row tails)} content x {LF VT FF IND NEL RI (7/8-bit), wrapping print, SU/SD/IL/DL x count classes}",
        &make,
        &j,
    ));
    // the same single commands fed one character at a time (Vt::feed), primary and alternate
    {
        let mut pc: Vec<Case> = vec![];
        for (cols, rows) in [(2usize, 2usize), (3, 3), (3, 4)] {
            let cmds = commands(cols, rows);
            for st in stbm_options(rows) {
                for row in 0..rows {
                    for alt in [false, true] {
                        for cmd in &cmds {
                            let mut s = String::new();
                            if alt {
                                s.push_str("\x1b[?1049h");
                            }
                            s.push_str(&gen::fill_screen_mode(cols, rows, 0));
                            s.push_str(&st);
                            s.push_str(&format!("\x1b[44m\x1b[{};1H", row + 1));
                            let mut c = Case::new(cols, rows, None);
                            c.calls.push(Call::Feed(s));
                            c.calls.push(Call::Feed(cmd.clone()));
                            pc.push(c);
                        }
                    }
                }
            }
        }
        parts.push(run_part(env, "enum-per-char", pc.len(), true, "sizes {2x2,3x3,3x4} x all DECSTBM forms x every cursor row x primary/alternate x every scrolling command and count class, fed one character at a time through Vt::feed()", &|i| pc.get(i).cloned(), &j));
    }
    // every proper region x origin mode on/off x every cursor row - rows above and below the
    // region with origin mode ON are reached through a restored cursor (c05::setup)
    {
        let mut oc: Vec<Case> = vec![];
        for (cols, rows) in [(2usize, 4usize), (3, 6)] {
            let cmds = commands(cols, rows);
            for m in super::c05::margin_options(rows) {
                if m.is_none() {
                    continue;
                }
                for origin in [false, true] {
                    for row in 0..rows {
                        for cmd in &cmds {
                            let mut s = gen::fill_screen_mode(cols, rows, 1);
                            s.push_str("\x1b[44m");
                            s.push_str(&super::c05::setup(cols, rows, m, origin, row, 0));
                            oc.push(Case::new(cols, rows, None).feed(s).feed(cmd.clone()));
                        }
                    }
                }
            }
        }
        parts.push(run_part(env, "enum-regions-origin", oc.len(), true, "sizes {2x4,3x6} x every proper scroll region x origin mode on/off x every cursor row (inside, above, below the region) x every scrolling command and count class", &|i| oc.get(i).cloned(), &j));
    }
    let len = if env.tier == Tier::Thorough { 3 } else { 2 };
    let sb = seq_blocks(len);
    let stotal: usize = sb.iter().map(|b| b.5).sum();
    let smake = |mut i: usize| -> Option<Case> {
        for (cols, rows, stbm, cmds, dims, total) in &sb {
            if i < *total {
                let d = radix(i, dims)?;
                let mut s = gen::fill_screen_mode(*cols, *rows, d[1]);
                s.push_str(&stbm[d[0]]);
                s.push_str("\x1b[42m");
                let mut case = Case::new(*cols, *rows, None).feed(s);
                for k in 0..len {
                    case.calls.push(Call::FeedStr(cmds[d[2 + k]].clone()));
                }
                return Some(case);
            }
            i -= total;
        }
        None
    };
    parts.push(run_part(env, "enum-sequences", stotal, true, &format!("sizes {{1x1,2x2,3x3}} x all DECSTBM forms x all sequences of {} scroll/move commands", len), &smake, &j));
    {
        use gen::*;
        let gl = |src: &mut Src, _i: usize| large_case(src, true, &[(CAT_LINES, 10), (CAT_C0, 6), (CAT_ESCFE, 5), (CAT_STBM, 4), (CAT_TEXT, 3), (CAT_CUP, 4), (CAT_SGR, 2), (CAT_REL, 2)], 12);
        parts.push(random_part(env, "large-screens", env.tier.scale(500, 40), &gl, &j));
    }
    // magnitudes: regions and counts beyond 255/256 on screens with 257 and 300 rows
    {
        let sizes = [(2usize, 257usize), (3, 300)];
        let mut big: Vec<Case> = vec![];
        for (cols, rows) in sizes {
            for (t, b) in [(1usize, rows - 1), (1, 256), (1, 255), (2, rows), (2, 257.min(rows)), (1, rows), (3, 260.min(rows))] {
                for n in ["", "1", "254", "255", "256", "257", "299", "65535"] {
                    for f in ['S', 'T', 'L', 'M'] {
                        for row in [0usize, 1, 255, rows - 1] {
                            for alt in [false, true] {
                                let mut s = String::new();
                                if alt {
                                    s.push_str("\x1b[?1047h");
                                }
                                // distinct content on the rows that matter (first, around the
                                // 255/256 boundary, last) - every step of the set-up is walked
                                for r in [0usize, 1, 2, 253, 254, 255, 256, rows - 2, rows - 1] {
                                    s.push_str(&format!("\x1b[{};1H{}", r + 1, (b'a' + (r % 26) as u8) as char));
                                }
                                s.push_str(&format!("\x1b[{};{}r\x1b[42m\x1b[{};1H", t, b, row + 1));
                                big.push(Case::new(cols, rows, None).feed(s).feed(format!("\x1b[{}{}", n, f)));
                            }
                        }
                    }
                }
            }
        }
        parts.push(run_part(env, "enum-tall", big.len(), true, "2x257 and 3x300: 7 regions with heights around 255/256/257 x {SU,SD,IL,DL} x counts {omitted,1,254..257,299,65535} x 4 cursor rows x primary/alternate", &|i| big.get(i).cloned(), &j));
    }
    parts.push(random_part(env, "random-histories", env.tier.scale(60_000, 40), &gen_random, &j));
    PropRun {
        parts,
        meta: EvidenceMeta {
            rule: "Every step that scrolls (LF/VT/FF/IND/NEL/wrap on the bottom margin, RI on the top margin, SU/SD/IL/DL) and every DECSTBM is compared with the one-step spec (rows of the range shifted by min(n,height), blanks in the current pen, rows outside untouched, marks per mechanism); with unlimited scrollback the lines above the view after each step must equal those before plus exactly the rows scrolled off the top of the primary screen; non-scrolling functions must leave the scrollback untouched. Non-trivial = a scrolling step with a partial range, count >= height, non-default pen, alternate screen, or cursor below the region.".into(),
            assumptions: vec!["which rows lose their soft-wrap mark on a scroll is pinned to the documented mechanism (DESIGN §6)".into()],
            not_compared: vec!["cursor column after IL/DL".into(), "cursor after an invalid DECSTBM".into(), "ED 3 is not generated".into()],
        },
        extra: serde_json::json!({"sequence_length": len}),
    }
}
