//! C15 — changed-line reports are sound (pure observation, no model).

use super::PropRun;
use crate::case::{new_vt, Call, Case, Verdict};
use crate::engine::{random_part, run_part, Env, EvidenceMeta, Tally};
use crate::gen::{self, G};
use crate::model::{row_of, CellSpec};
use crate::src::Src;
use crate::walk::functions_of;

fn snapshot(vt: &avt::Vt) -> Vec<Vec<CellSpec>> {
    vt.view().iter().map(row_of).collect()
}

fn classify(s: &str, tally: &mut Tally) {
    use crate::reffn::RefFn::*;
    let (fs, _, _) = functions_of(s);
    for f in fs {
        match f {
            Print(_) | Rep(_) => tally.class("print"),
            Su(_) | Sd(_) | Il(_) | Dl(_) | Lf | Nel | Ri => tally.class("scroll_or_linefeed"),
            Ed(_) | El(_) | Ech(_) | Ich(_) | Dch(_) => tally.class("erase_edit"),
            Decaln => tally.class("decaln"),
            Decset(ms) | Decrst(ms) => {
                if ms.iter().any(|m| *m == 1047 || *m == 1049) {
                    tally.class("buffer_switch")
                }
            }
            Ris => tally.class("ris"),
            _ => {}
        }
    }
}

pub fn judge(_part: &str, case: &Case, tally: &mut Tally) -> Verdict {
    let mut vt = new_vt(case.cols, case.rows, case.limit);
    for (i, call) in case.calls.iter().enumerate() {
        let before = snapshot(&vt);
        let (changed, what): (Vec<usize>, String) = match call {
            Call::FeedStr(s) => {
                classify(s, tally);
                (vt.feed_str(s).lines.clone(), format!("feed_str({:?})", crate::case::clip(s, 80)))
            }
            Call::Resize(c, r) => {
                tally.class("resize");
                (vt.resize(*c, *r).lines.clone(), format!("resize({},{})", c, r))
            }
            Call::Feed(s) => {
                // feed() reports nothing itself; rows it dirties are not this property's
                // subject (the statement speaks of feed_str and resize calls)
                for ch in s.chars() {
                    vt.feed(ch);
                }
                continue;
            }
            _ => continue,
        };
        tally.steps += 1;
        let after = snapshot(&vt);
        let mut n_changed = 0;
        let mut n_same = 0;
        for r in 0..after.len() {
            let differs = match before.get(r) {
                Some(old) => old != &after[r],
                None => true, // a row with no counterpart before the call
            };
            if differs {
                n_changed += 1;
                if !changed.contains(&r) {
                    let show = |row: &Vec<CellSpec>| row.iter().map(|c| c.0).collect::<String>();
                    return Verdict::fail(
                        "unreported-row",
                        format!(
                            "call {} {}: row {} changed from {:?} to {:?} (pens may differ too) but Changes.lines = {:?}",
                            i,
                            what,
                            r,
                            before.get(r).map(show),
                            show(&after[r]),
                            changed
                        ),
                    );
                }
            } else {
                n_same += 1;
            }
        }
        if n_changed > 0 && n_same > 0 {
            tally.nontrivial = true;
        }
    }
    Verdict::Pass
}

/// histories in which most feed_str calls carry a single command, so each mutating
/// command is also judged alone; a priming call first so that "everything dirty after
/// construction" does not mask anything
pub fn gen_single_ops(src: &mut Src, _i: usize) -> Case {
    let (cols, rows) = gen::small_size(src);
    let mut g = G::new(cols, rows);
    let mut case = Case::new(cols, rows, gen::limit(src));
    case.calls.push(Call::FeedStr(String::new()));
    if src.chance(2, 3) {
        case.calls.push(Call::FeedStr(gen::fill_screen(cols, rows, src.chance(1, 2))));
    }
    let n = src.range(2, 16);
    for _ in 0..n {
        if src.chance(1, 12) {
            let (c, r) = gen::resize_target(src, &g);
            g.cols = c;
            g.rows = r;
            case.calls.push(Call::Resize(c, r));
        } else if src.chance(1, 10) {
            case.calls.push(Call::Feed(gen::frag(src, &g)));
        } else {
            case.calls.push(Call::FeedStr(gen::frag(src, &g)));
        }
    }
    case
}

pub fn gen_multi(src: &mut Src, _i: usize) -> Case {
    let (cols, rows) = if src.chance(1, 20) { (80, 24) } else { gen::small_size(src) };
    let mut g = G::new(cols, rows).with_raw(2);
    let mut case = Case::new(cols, rows, gen::limit(src));
    case.calls.push(Call::FeedStr(String::new()));
    let n = src.range(1, 10);
    case.calls.extend(gen::history(src, &mut g, n, 12, 8, 0, false));
    case
}

/// medium-tall screens (8 - 40 rows) with distinct content on every row; each call first
/// touches a scattered handful of rows (so they are already marked) and then runs one or
/// two commands that move many rows at once
pub fn gen_tall_scattered(src: &mut Src, _i: usize) -> Case {
    let cols = src.range(2, 7);
    let rows = src.range(8, 40);
    let mut case = Case::new(cols, rows, gen::limit(src));
    let mut fill = String::new();
    for r in 0..rows {
        fill.push_str(&format!("\x1b[{};1H{}{}", r + 1, (b'A' + (r % 26) as u8) as char, (b'a' + ((r * 7) % 26) as u8) as char));
    }
    case.calls.push(Call::FeedStr(fill));
    if src.chance(1, 3) {
        let t = src.range(1, rows - 1);
        let b = src.range(t + 1, rows);
        case.calls.push(Call::FeedStr(format!("\x1b[{};{}r", t, b)));
    }
    for _ in 0..src.range(1, 6) {
        let mut s = String::new();
        // scattered touches: every k-th row from a random start, or random rows
        let step = src.range(1, (rows / 3).max(2));
        let start = src.below(rows);
        if src.chance(2, 3) {
            let mut r = start;
            while r < rows {
                s.push_str(&format!("\x1b[{};{}H{}", r + 1, src.range(1, cols), *src.pick(&["x", "\x1b[K", "\x1b[X", "#"])));
                r += step;
            }
            if src.chance(1, 2) {
                s.push_str(&format!("\x1b[{};1H!", rows));
            }
        } else {
            for _ in 0..src.range(1, 5) {
                s.push_str(&format!("\x1b[{};1Hy", src.range(1, rows)));
            }
        }
        for _ in 0..src.range(1, 2) {
            let row = src.range(1, rows);
            let n = *src.pick(&[1usize, 1, 2, 3, rows / 2, rows]);
            s.push_str(&format!("\x1b[{};1H", row));
            s.push_str(&match src.below(8) {
                0 | 1 => format!("\x1b[{}L", n),
                2 | 3 => format!("\x1b[{}M", n),
                4 => format!("\x1b[{}S", n),
                5 => format!("\x1b[{}T", n),
                6 => "\x1bM".to_string(),
                _ => "\n".repeat(n),
            });
        }
        case.calls.push(Call::FeedStr(s));
    }
    case
}

/// large screens (more than 255 rows / columns) and many calls
pub fn gen_large(src: &mut Src, _i: usize) -> Case {
    let (cols, rows) = gen::large_size(src);
    let mut g = G::new(cols, rows);
    let mut case = Case::new(cols, rows, gen::limit(src));
    case.calls.push(Call::FeedStr(String::new()));
    let n = src.range(2, 30);
    for _ in 0..n {
        if src.chance(1, 10) {
            let (c, r) = if src.chance(1, 2) { gen::large_size(src) } else { gen::resize_target(src, &g) };
            g.cols = c;
            g.rows = r;
            case.calls.push(Call::Resize(c, r));
        } else {
            let mut s = gen::frag(src, &g);
            if src.chance(1, 4) {
                s.push_str(&format!("\x1b[{};{}H", src.range(1, g.rows), src.range(1, g.cols)));
            }
            case.calls.push(Call::FeedStr(s));
        }
    }
    case
}

/// enumerated: after priming and filling, each single mutating command alone, at every
/// cursor position of small screens, on both screens
fn enum_single() -> Vec<Case> {
    let cmds: Vec<String> = vec![
        "x", "\x1b[b", "\x1b[3b", "\n", "\x1bD", "\x1bE", "\x1bM", "\x1b[S", "\x1b[2T", "\x1b[L", "\x1b[2M", "\x1b[J", "\x1b[1J", "\x1b[2J", "\x1b[K", "\x1b[1K", "\x1b[2K", "\x1b[X", "\x1b[2X", "\x1b[@", "\x1b[2@", "\x1b[P", "\x1b[9P", "\x1b#8",
        "\x1b[44m\x1b[K", "\x1b[44m\x1b[1K", "\x1b[44m\x1b[2K", "\x1b[44m\x1b[X", "\x1b[44m\x1b[P", "\x1b[44m\x1b[@", "\x1b[44m\x1b[J", "\x1b[44m\x1b[L", "\x1b[44m\x1b[M", "\x1b[44m\x1b[S", "\x1b[44m\x1b[T",
        "\x1b[?1049h", "\x1b[?1047h", "\x1b[?47h", "\x1b[?1049l", "\x1b[?1047l", "\x1bc", "\x1b[4hx", "xy", "\x1b[?7lxy", "\x0e`", "\x1b[41m\x1b[K", "\x1b[2;3r\n", "\x1b[2;3r\x1bM", "\x1b[!p", "\t", "\x08",
    ]
    .into_iter()
    .map(String::from)
    .collect();
    let mut v = vec![];
    for (cols, rows) in [(1usize, 1usize), (2, 2), (3, 4), (5, 3)] {
        for alt in [false, true] {
            for fill in [0usize, 1, 2] {
                for row in 0..rows {
                    for col in 0..=cols {
                        for cmd in &cmds {
                            let mut setup = String::new();
                            if alt {
                                setup.push_str("\x1b[?1047h");
                            }
                            setup.push_str(&gen::fill_screen_mode(cols, rows, fill));
                            setup.push_str(&format!("\x1b[{};{}H", row + 1, col.min(cols - 1) + 1));
                            if col >= cols {
                                setup.push('x');
                            }
                            v.push(Case::new(cols, rows, None).feed(setup).feed(cmd.clone()));
                        }
                    }
                }
            }
        }
    }
    v
}

pub fn run(env: &Env) -> PropRun {
    let j = |c: &Case, t: &mut Tally| judge("", c, t);
    let mut parts = vec![];
    let es = enum_single();
    parts.push(run_part(env, "enum-single-commands", es.len(), true, "sizes {1x1,2x2,3x4,5x3} x primary/alternate x {wrapped,unwrapped,sparse} content x every cursor cell incl. wrap-pending x 40 single mutating commands", &|i| es.get(i).cloned(), &j));
    parts.push(random_part(env, "tall-scattered", env.tier.scale(30_000, 30), &gen_tall_scattered, &j));
    parts.push(random_part(env, "large-screens", env.tier.scale(1_500, 30), &gen_large, &j));
    parts.push(random_part(env, "many-calls", env.tier.scale(200, 20), &|s: &mut Src, i| super::c01::gen_many_calls(s, i), &j));
    parts.push(random_part(env, "single-op-calls", env.tier.scale(100_000, 40), &gen_single_ops, &j));
    parts.push(random_part(env, "multi-op-calls", env.tier.scale(80_000, 40), &gen_multi, &j));
    PropRun {
        parts,
        meta: EvidenceMeta {
            rule: "view() cells (characters + pens) are snapshotted before every feed_str/resize call; afterwards every row index whose cells differ from the same-index row before (or that has no counterpart) must be in Changes.lines. Over-reporting is allowed. Non-trivial = a call that changed at least one row and left at least one row unchanged.".into(),
            assumptions: vec![],
            not_compared: vec!["soft-wrap marks (the statement speaks of cells)".into(), "rows dirtied by feed() are not attributed to a later call".into()],
        },
        extra: serde_json::json!({}),
    }
}
