//! C10 — resizing keeps the logical text and the cursor's place in it.

use super::PropRun;
use crate::case::{new_vt, Call, Case, Verdict};
use crate::engine::{random_part, run_part, Env, EvidenceMeta, Tally};
use crate::gen::{self, G};
use crate::observe::{geometry_violation, logical, logical_cells, pens_relation, trim_sp};
use crate::src::Src;
use crate::walk::ScreenTracker;

/// the relation of the property between (logical lines, logical cursor) before and after
pub fn relation(before: &[String], cp: (usize, usize), col_before: usize, cols_before: usize, after: &[String], cp2: (usize, usize)) -> Option<(&'static str, String)> {
    if cp2.0 != cp.0 {
        return Some(("cursor-line-index", format!("the cursor was in logical line {}, is in logical line {}", cp.0, cp2.0)));
    }
    for i in 0..cp.0 {
        if after.get(i).map(|x| trim_sp(x)) != Some(trim_sp(&before[i])) {
            return Some(("line-above-changed", format!("logical line {} above the cursor changed: {:?} -> {:?}", i, before[i], after.get(i))));
        }
    }
    let bl: Vec<char> = before[cp.0].chars().collect();
    let al: Vec<char> = after.get(cp.0).map(|x| x.chars().collect()).unwrap_or_default();
    let tl = trim_sp(&before[cp.0]).chars().count();
    let k = cp.1.min(tl);
    if al.len() < k || al[..k] != bl[..k] {
        return Some(("cursor-line-prefix", format!("text before the cursor in its logical line changed: {:?} -> {:?}", bl[..k].iter().collect::<String>(), al.iter().take(k).collect::<String>())));
    }
    let on_char = cp.1 < tl && col_before < cols_before;
    if on_char && cp2.1 != cp.1 {
        return Some(("cursor-offset", format!("the cursor was on character {} of its logical line, is on character {}", cp.1, cp2.1)));
    }
    let a = trim_sp(&after[cp.0]);
    let b = trim_sp(&before[cp.0]);
    if !b.starts_with(a) {
        return Some(("cursor-line-altered", format!("the cursor's logical line was altered: {:?} -> {:?}", b, a)));
    }
    let mut cut = a != b;
    for i in cp.0 + 1..after.len().max(before.len()) {
        let a = after.get(i).map(|x| trim_sp(x)).unwrap_or("");
        match before.get(i) {
            None => {
                if !a.is_empty() {
                    return Some(("invented-line", format!("logical line {} = {:?} did not exist before the resize", i, a)));
                }
            }
            Some(b) => {
                let b = trim_sp(b);
                if cut {
                    if !a.is_empty() {
                        return Some(("content-after-cut", format!("logical line {} = {:?} follows a line that was cut short", i, a)));
                    }
                } else if a != b {
                    if b.starts_with(a) {
                        cut = true;
                    } else {
                        return Some(("line-below-altered", format!("logical line {} below the cursor was altered: {:?} -> {:?}", i, b, a)));
                    }
                }
            }
        }
    }
    None
}

pub fn judge(_part: &str, case: &Case, tally: &mut Tally) -> Verdict {
    if case.limit.is_some() {
        return Verdict::Invalid("C10 is stated for unlimited scrollback".into());
    }
    let mut vt = new_vt(case.cols, case.rows, None);
    let mut tr = ScreenTracker::new();
    let (mut cols, mut _rows) = (case.cols, case.rows);
    for (i, call) in case.calls.iter().enumerate() {
        match call {
            Call::FeedStr(s) | Call::Feed(s) => {
                tr.feed_str(s);
                crate::case::apply_call(&mut vt, call);
            }
            Call::Resize(c, r) => {
                if tr.alt != Some(false) {
                    // the property speaks of the primary screen (C16 covers the alternate)
                    tally.excluded += 1;
                    let _ = vt.resize(*c, *r);
                    cols = *c;
                    _rows = *r;
                    continue;
                }
                let (before, cp) = logical(&vt);
                let cells_before = logical_cells(&vt);
                let col_before = vt.cursor().col;
                let row_before = vt.cursor().row;
                let rows_before = vt.size().1;
                let _ = vt.resize(*c, *r);
                tally.steps += 1;
                let (after, cp2) = logical(&vt);
                if let Some(m) = geometry_violation(&vt, (*c, *r)) {
                    return Verdict::fail("geometry", format!("after resize {} ({}x{}): {}", i, c, r, m));
                }
                if let Some((sig, msg)) = relation(&before, cp, col_before, cols, &after, cp2) {
                    return Verdict::fail(sig, format!("resize call {} ({}x{} -> {}x{}): {}; logical lines before {:?} cursor {:?}; after {:?} cursor {:?}", i, cols, rows_before, c, r, msg, before, cp, after, cp2));
                }
                if let Some(m) = pens_relation(&cells_before, &logical_cells(&vt), cp.0) {
                    return Verdict::fail("pens", format!("resize call {} ({}x{} -> {}x{}): re-wrapping changed a pen: {}", i, cols, rows_before, c, r, m));
                }
                let minw = cols.min(*c);
                if *c != cols && before.iter().any(|l| trim_sp(l).chars().count() > minw) {
                    tally.class("rewraps_a_long_line");
                    tally.nontrivial = true;
                }
                if after.iter().map(|l| trim_sp(l)).ne(before.iter().map(|l| trim_sp(l))) {
                    tally.class("rows_below_cursor_cut");
                    tally.nontrivial = true;
                }
                if col_before >= cols {
                    tally.class("wrap_pending_cursor");
                }
                if row_before == 0 && *c < cols {
                    tally.class("cursor_on_first_row_narrowing");
                }
                cols = *c;
                _rows = *r;
            }
            _ => {}
        }
    }
    Verdict::Pass
}

pub fn gen_random(src: &mut Src, _i: usize) -> Case {
    let (cols, rows) = if src.chance(1, 25) { (*src.pick(&[80usize, 100]), *src.pick(&[24usize, 10])) } else { gen::small_size(src) };
    let mut g = G::new(cols, rows).no_alt().no_ris();
    g.w[gen::CAT_TEXT] = 14;
    g.w[gen::CAT_FILL] = 6;
    g.w[gen::CAT_C0] = 8;
    let mut case = Case::new(cols, rows, None);
    case.calls.push(Call::FeedStr(gen::input(src, &g, 12)));
    let n = src.range(1, 4);
    for _ in 0..n {
        let (c, r) = if src.chance(1, 2) { (src.range(1, 14), src.range(1, 8)) } else { gen::resize_target(src, &g) };
        g.cols = c;
        g.rows = r;
        case.calls.push(Call::Resize(c, r));
        if src.chance(1, 3) {
            case.calls.push(Call::FeedStr(gen::input(src, &g, 4)));
        }
    }
    case
}

/// long wrapped paragraphs with the cursor on the first / middle / last row of a
/// paragraph, then narrow to 1-3 columns or widen past the paragraph length
pub fn gen_paragraphs(src: &mut Src, _i: usize) -> Case {
    let cols = src.range(2, 12);
    let rows = src.range(1, 7);
    let mut s = String::new();
    let np = src.range(1, 4);
    let mut plens = vec![];
    for p in 0..np {
        let len = src.range(1, cols * 4);
        plens.push(len);
        for k in 0..len {
            if src.chance(1, 9) {
                s.push_str(*src.pick(&["\x1b[31m", "\x1b[1;44m", "\x1b[m", "\x1b[7m", "\x1b[38;5;200m"]));
            }
            if k + 1 == len && src.chance(1, 4) {
                // the last character of a logical line from another width class (zero-width
                // marks and joiners, wide CJK / emoji, no-break space): it is content like
                // any other and must survive every re-wrap
                s.push(*src.pick(&['\u{301}', '\u{200b}', '\u{200d}', '\u{fe0f}', '世', '😀', 'é', '\u{a0}']));
            } else {
                s.push((b'a' + ((p * 5 + k) % 26) as u8) as char);
            }
        }
        if p + 1 < np {
            s.push_str("\r\n");
        }
    }
    // move the cursor somewhere into the text
    match src.below(4) {
        0 => s.push_str(&format!("\x1b[{};{}H", src.range(1, rows), src.range(1, cols))),
        1 => s.push_str(&format!("\x1b[{}A\x1b[{}G", src.range(1, rows), src.range(1, cols))),
        2 => s.push_str("\x1b[H"),
        _ => {}
    }
    let mut case = Case::new(cols, rows, None).feed(s);
    let maxlen = *plens.iter().max().unwrap();
    let n = src.range(1, 3);
    for _ in 0..n {
        let c = match src.below(4) {
            0 => src.range(1, 3),
            1 => maxlen + src.range(0, 3),
            2 => cols + 1,
            _ => src.range(1, 14),
        };
        let r = if src.chance(1, 2) { rows } else { src.range(1, 8) };
        case.calls.push(Call::Resize(c, r));
    }
    case
}

/// a scroll region (optionally with origin mode) is in force while the width changes: a
/// width-only resize keeps the region, and the re-wrap moves the cursor's line across
/// the margins (scrollback rows come back into view when wrapped text gets shorter)
pub fn gen_regions(src: &mut Src, _i: usize) -> Case {
    let cols = src.range(3, 12);
    let rows = src.range(3, 8);
    let mut s = String::new();
    let np = src.range(2, 7);
    for p in 0..np {
        let len = src.range(1, cols * 4);
        for k in 0..len {
            s.push((b'a' + ((p * 5 + k) % 26) as u8) as char);
        }
        s.push_str("\r\n");
    }
    let t = src.range(1, rows - 1);
    let b = src.range(t + 1, rows);
    s.push_str(&format!("\x1b[{};{}r", t, b));
    if src.chance(2, 3) {
        s.push_str("\x1b[?6h");
    }
    match src.below(4) {
        0 => s.push_str(&format!("\x1b[{};{}H", src.range(1, rows), src.range(1, cols))),
        1 => s.push_str(&format!("\x1b[{}B\x1b[{}G", src.range(1, rows), src.range(1, cols))),
        2 => s.push_str(&format!("\x1b[{}d", rows)),
        _ => {}
    }
    if src.chance(1, 3) {
        for k in 0..src.range(1, cols * 2) {
            s.push((b'A' + (k % 26) as u8) as char);
        }
    }
    let mut case = Case::new(cols, rows, None).feed(s);
    let n = src.range(1, 3);
    for _ in 0..n {
        let c = match src.below(4) {
            0 => src.range(1, 3),
            1 => cols * src.range(2, 4),
            2 => cols + 1,
            _ => src.range(1, 30),
        };
        let r = if src.chance(3, 4) { rows } else { src.range(1, 9) };
        case.calls.push(Call::Resize(c, r));
    }
    case
}

/// magnitudes: logical lines of hundreds to thousands of characters, hundreds of lines of
/// scrollback, widths beyond 255, chains of many resizes
pub fn gen_large(src: &mut Src, _i: usize) -> Case {
    let cols = *src.pick(&[2usize, 7, 40, 80, 132, 255, 256, 257, 300, 512]);
    let rows = *src.pick(&[1usize, 2, 5, 24, 50, 130, 260]);
    let mut s = String::new();
    let nlines = src.range(1, 40) * if src.chance(1, 4) { 12 } else { 1 };
    for k in 0..nlines {
        let len = match src.below(6) {
            0 => src.range(0, 20),
            1 => cols * src.range(1, 6),
            2 => 255 + src.range(0, 3),
            3 => src.range(256, 1500),
            4 => 65 + src.range(0, 4000) % 700,
            _ => src.range(1, 3 * cols + 2),
        };
        for j in 0..len {
            s.push((b'a' + ((k * 7 + j) % 26) as u8) as char);
        }
        if k + 1 < nlines {
            s.push_str("\r\n");
        }
    }
    match src.below(4) {
        0 => s.push_str(&format!("\x1b[{};{}H", src.range(1, rows), src.range(1, cols))),
        1 => s.push_str("\x1b[H"),
        2 => s.push_str(&format!("\x1b[{}A", src.range(1, rows))),
        _ => {}
    }
    let mut case = Case::new(cols, rows, None).feed(s);
    let n = if src.chance(1, 5) { src.range(5, 24) } else { src.range(1, 3) };
    for _ in 0..n {
        let c = *src.pick(&[1usize, 2, 3, 9, 64, 100, 128, 254, 255, 256, 257, 300, 700]);
        let r = *src.pick(&[1usize, 2, 3, 10, 24, 100, 255, 256, 300]);
        let (c, r) = match src.below(3) {
            0 => (c, rows),
            1 => (cols, r),
            _ => (c, r),
        };
        case.calls.push(Call::Resize(c, r));
    }
    case
}

/// every (cols, rows) -> (cols', rows') on tiny sizes for a few fixed contents and cursors
fn enum_all_pairs() -> Vec<Case> {
    let contents = ["abcde\u{301}\r\nxy\u{200b}\r\nz", "abcdefghijklmnop", "ab\r\ncdefgh\r\ni", "abcdefgh\x1b[H", "abc\r\n\r\ndefghijk\x1b[2;2H", "abcdefghijkl\x1b[1;3H\x1b[K"];
    let mut v = vec![];
    for content in contents {
        for c1 in 1..=5usize {
            for r1 in 1..=4usize {
                for c2 in 1..=6usize {
                    for r2 in 1..=4usize {
                        v.push(Case::new(c1, r1, None).feed(content).resize(c2, r2));
                    }
                }
            }
        }
    }
    v
}

pub fn run(env: &Env) -> PropRun {
    let j = |c: &Case, t: &mut Tally| judge("", c, t);
    let mut parts = vec![];
    let ep = enum_all_pairs();
    parts.push(run_part(env, "enum-all-size-pairs", ep.len(), true, "6 contents x every (cols 1-5, rows 1-4) -> (cols 1-6, rows 1-4)", &|i| ep.get(i).cloned(), &j));
    parts.push(random_part(env, "paragraphs", env.tier.scale(80_000, 40), &gen_paragraphs, &j));
    parts.push(random_part(env, "regions-and-origin", env.tier.scale(40_000, 40), &gen_regions, &j));
    parts.push(random_part(env, "large-and-long", env.tier.scale(600, 30), &gen_large, &j));
    parts.push(random_part(env, "random-histories", env.tier.scale(120_000, 40), &gen_random, &j));
    PropRun {
        parts,
        meta: EvidenceMeta {
            rule: "Before and after every resize of the primary screen (unlimited scrollback) the logical lines (lines() unwrapped by soft-wrap marks) and the logical cursor (line index, character offset) are related as the property states, modulo trailing U+0020: same cursor line index; lines above equal; the cursor line's text before the cursor equal and the offset equal when the cursor was on a character; from the cursor line on, the new list is the old list cut short (equal lines, then at most one proper prefix, then only blanks); geometry invariants hold. Non-trivial = the width changes and some logical line is longer than min(old,new) width, or rows below the cursor were cut.".into(),
            assumptions: vec!["content comes from arbitrary structured histories without alternate-screen switches and RIS".into()],
            not_compared: vec!["pens (only characters)".into(), "a wrap-pending cursor is only required to stay in its logical line with its prefix intact".into(), "resizes while the alternate screen is showing (C16)".into()],
        },
        extra: serde_json::json!({}),
    }
}
