//! C14 — no scrolled-off line is lost, duplicated, reordered or altered.

use super::PropRun;
use crate::case::{new_vt, Call, Case, Verdict};
use crate::engine::{random_part, run_part, Env, EvidenceMeta, Tally};
use crate::gen::{self, G};
use crate::model::wrapped;
use crate::src::Src;
use crate::walk::ScreenTracker;
use avt::util::TextCollector;

pub const CLOSING: &str = "\x18\x1b[?1047l";

fn strip_trailing_empty(mut v: Vec<String>) -> Vec<String> {
    while v.last().map(|s| s.is_empty()).unwrap_or(false) {
        v.pop();
    }
    v
}

pub fn judge(_part: &str, case: &Case, tally: &mut Tally) -> Verdict {
    let Some(_limit) = case.limit else { return Verdict::Invalid("C14 compares a finite limit against unlimited".into()) };
    // domain: feed_str chunks only, no RIS anywhere, closed by CAN + CSI ?1047l
    let mut tr = ScreenTracker::new();
    let mut chunks: Vec<&str> = vec![];
    // pieces that go through Vt::feed, one character at a time (no Changes are returned:
    // whatever they scroll off must come out with a later feed_str)
    let mut per_char: Vec<bool> = vec![];
    for c in &case.calls {
        match c {
            Call::FeedStr(s) => {
                tr.feed_str(s);
                chunks.push(s);
                per_char.push(false);
            }
            Call::Feed(s) => {
                tr.feed_str(s);
                chunks.push(s);
                per_char.push(true);
            }
            _ => return Verdict::Invalid("C14 sessions consist of feed_str and feed calls only".into()),
        }
    }
    if per_char.last().copied() == Some(true) {
        return Verdict::Invalid("session must end with a feed_str call".into());
    }
    if tr.saw_ris {
        return Verdict::Invalid("session contains RIS".into());
    }
    if chunks.last().copied() != Some(CLOSING) {
        return Verdict::Invalid("session is not closed by CAN + CSI ?1047l".into());
    }
    let mut limited = new_vt(case.cols, case.rows, case.limit);
    let mut unlimited = new_vt(case.cols, case.rows, None);
    let mut collected: Vec<avt::Line> = vec![];
    let mut chunks_with_output = 0;
    for (k, s) in chunks.iter().enumerate() {
        let _ = unlimited.feed_str(s);
        if per_char[k] {
            for ch in s.chars() {
                limited.feed(ch);
            }
            tally.steps += 1;
            continue;
        }
        let ch = limited.feed_str(s);
        let got: Vec<avt::Line> = ch.scrollback.collect();
        if !got.is_empty() {
            chunks_with_output += 1;
        }
        collected.extend(got);
        tally.steps += 1;
    }
    let n_collected = collected.len();
    let mut all = collected;
    all.extend(limited.lines().iter().cloned());
    let want = unlimited.lines();
    if all.as_slice() != want {
        // locate the first difference
        let mut at = 0;
        while at < all.len() && at < want.len() && all[at] == want[at] {
            at += 1;
        }
        let show = |l: Option<&avt::Line>| l.map(|l| format!("{:?}", l)).unwrap_or_else(|| "<none>".into());
        return Verdict::fail(
            "stream",
            format!(
                "handed-out lines ({}) ++ final lines() ({}) != lines() of the unlimited terminal ({}); first difference at index {}: got {}, unlimited has {}",
                n_collected,
                limited.lines().len(),
                want.len(),
                at,
                show(all.get(at)),
                show(want.get(at))
            ),
        );
    }
    if chunks_with_output > 0 {
        tally.class("handed_out_lines");
    }
    if tr.saw_switch {
        tally.class("alt_excursion");
    }
    if per_char.iter().any(|&b| b) {
        tally.class("pieces_through_feed");
    }
    let straddle = n_collected > 0 && n_collected <= all.len() && n_collected >= 1 && wrapped(&all[n_collected - 1]);
    if straddle {
        tally.class("wrapped_line_straddles_trim_point");
    }
    if chunks_with_output > 0 && (tr.saw_switch || straddle) {
        tally.nontrivial = true;
    }

    // consequence: TextCollector yields the same text for every limit and chunking
    let whole: String = chunks.concat();
    let collect = |limit: Option<usize>, pieces: &[&str]| -> Vec<String> {
        let mut tc = TextCollector::new(new_vt(case.cols, case.rows, limit));
        let mut out: Vec<String> = vec![];
        for p in pieces {
            out.extend(tc.feed_str(p));
        }
        out.extend(tc.flush());
        strip_trailing_empty(out)
    };
    let reference = collect(None, &[&whole]);
    for (name, got) in [
        ("same chunking, configured limit", collect(case.limit, &chunks)),
        ("whole input, configured limit", collect(case.limit, &[&whole])),
        ("same chunking, limit 0", collect(Some(0), &chunks)),
        ("same chunking, unlimited", collect(None, &chunks)),
    ] {
        tally.steps += 1;
        if got != reference {
            let mut at = 0;
            while at < got.len() && at < reference.len() && got[at] == reference[at] {
                at += 1;
            }
            return Verdict::fail(
                "collector",
                format!("TextCollector ({}) yields {} lines, the unlimited whole-input collector {}; first difference at line {}: {:?} vs {:?}", name, got.len(), reference.len(), at, got.get(at), reference.get(at)),
            );
        }
    }
    // and it is the text() of the unlimited terminal, up to trailing blanks per line
    let text = strip_trailing_empty(unlimited.text());
    let norm = |v: &[String]| -> Vec<String> { strip_trailing_empty(v.iter().map(|s| s.trim_end().to_string()).collect()) };
    if norm(&reference) != norm(&text) {
        return Verdict::fail("collector-vs-text", format!("TextCollector output {:?} differs from text() of the unlimited terminal {:?}", crate::case::clip(&reference.join("|"), 200), crate::case::clip(&text.join("|"), 200)));
    }
    Verdict::Pass
}

fn chunk(src: &mut Src, s: &str) -> Vec<Call> {
    let chars: Vec<char> = s.chars().collect();
    let mut calls = vec![];
    let mut i = 0;
    let maxp = *src.pick(&[3usize, 12, 40, 200]);
    while i < chars.len() {
        let n = src.range(1, maxp);
        let e = (i + n).min(chars.len());
        calls.push(Call::FeedStr(chars[i..e].iter().collect()));
        i = e;
    }
    calls
}

pub fn gen_case(src: &mut Src, _i: usize) -> Case {
    let (cols, rows) = if src.chance(1, 25) { (80, 24) } else { gen::small_size(src) };
    let limit = *src.pick(&super::c13::LIMITS[..10]);
    let mut g = G::new(cols, rows).no_ris().with_raw(2);
    g.w[gen::CAT_C0] = 14;
    g.w[gen::CAT_TEXT] = 14;
    g.w[gen::CAT_FILL] = 5;
    g.w[gen::CAT_LINES] = 5;
    g.w[gen::CAT_ALT] = 4;
    g.w[gen::CAT_STBM] = 4;
    let mut s = String::new();
    let n = src.range(1, 30);
    for _ in 0..n {
        let f = gen::frag(src, &g);
        // raw fragments may contain RIS: drop those
        let (fs, _, _) = crate::walk::functions_of(&f);
        if fs.iter().any(|x| matches!(x, crate::reffn::RefFn::Ris)) || f.contains("\x1bc") {
            continue;
        }
        if f.contains("[3J") {
            continue; // ED 3: unspecified w.r.t. the scrollback (DESIGN §6)
        }
        s.push_str(&f);
    }
    // the concatenation itself may form ESC c across fragment borders
    let mut tr = ScreenTracker::new();
    tr.feed_str(&s);
    if tr.saw_ris {
        s = s.replace('c', "d");
    }
    let mut case = Case::new(cols, rows, Some(limit));
    case.calls = chunk(src, &s);
    case.calls.push(Call::FeedStr(CLOSING.to_string()));
    case
}

/// the same sessions with about half of the pieces going through `Vt::feed` (which returns
/// no Changes and trims only the alternate screen): short pieces, so that single final
/// bytes of mode switches travel that way too
pub fn gen_mixed_feed(src: &mut Src, i: usize) -> Case {
    let mut case = if src.chance(1, 2) { gen_case(src, i) } else { gen_wrapped(src, i) };
    let n = case.calls.len();
    let mut calls: Vec<Call> = vec![];
    for (k, c) in case.calls.drain(..).enumerate() {
        match c {
            Call::FeedStr(s) if k + 1 < n => {
                // cut once more so that pieces are short, then pick the route per piece
                let chars: Vec<char> = s.chars().collect();
                let cut = src.range(0, chars.len());
                for piece in [&chars[..cut], &chars[cut..]] {
                    if piece.is_empty() {
                        continue;
                    }
                    let p: String = piece.iter().collect();
                    calls.push(if src.chance(1, 2) { Call::Feed(p) } else { Call::FeedStr(p) });
                }
            }
            other => calls.push(other),
        }
    }
    case.calls = calls;
    case
}

/// long soft-wrapped lines on tiny screens with tiny limits, so that trim points fall
/// inside logical lines, mixed with scroll-downs at the top row and alt excursions
pub fn gen_wrapped(src: &mut Src, _i: usize) -> Case {
    let cols = src.range(2, 8);
    let rows = src.range(1, 4);
    let limit = *src.pick(&[0usize, 0, 1, 2, 3, 5, 9, 10, 11]);
    let mut s = String::new();
    let n = src.range(2, 14);
    for k in 0..n {
        match src.below(12) {
            0 => s.push_str(*src.pick(&["\x1b[H\x1bM", "\x1b[H\x1b[L", "\x1b[T", "\x1b[H\x1b[2L", "\x1b[2T"])),
            1 => s.push_str(*src.pick(&["\x1b[?1049h", "\x1b[?1047h", "\x1b[?1049l", "\x1b[?47l"])),
            2 => s.push_str(*src.pick(&["\x1b[H\x1b[M", "\x1b[S", "\x1b[3S", "\n\n"])),
            3 => s.push_str(*src.pick(&["\x1b[1;2r", "\x1b[r", "\x1b[41m", "\x1b[m", "\x1b[K", "\x1b[1K"])),
            _ => {
                let len = match src.below(4) {
                    0 => cols * src.range(1, 4),
                    1 => cols * src.range(1, 4) + 1,
                    _ => src.range(1, cols * 5),
                };
                for j in 0..len {
                    s.push((b'a' + ((k * 3 + j) % 26) as u8) as char);
                }
                if src.chance(3, 4) {
                    s.push_str("\r\n");
                }
            }
        }
    }
    let mut case = Case::new(cols, rows, Some(limit));
    case.calls = chunk(src, &s);
    case.calls.push(Call::FeedStr(CLOSING.to_string()));
    case
}

/// one logical line longer than the whole retained buffer: an unbroken soft-wrapped line of
/// (limit + rows) ... 3 x (limit + rows) rows, under limits with a slack of 2 and more
/// (20 ... 60), cut into calls of every granularity, with short lines around it
pub fn gen_giant_lines(src: &mut Src, _i: usize) -> Case {
    let cols = src.range(1, 6);
    let rows = src.range(1, 5);
    let limit = *src.pick(&[19usize, 20, 21, 22, 25, 29, 30, 31, 40, 60]);
    let mut s = String::new();
    for k in 0..src.range(1, 4) {
        for _ in 0..src.range(0, 4) {
            s.push_str(&format!("l{}\r\n", k));
        }
        let rows_long = (limit + rows) * src.range(1, 3) + src.range(0, 6);
        let len = rows_long * cols - src.below(cols);
        for j in 0..len {
            s.push((b'a' + ((k * 5 + j) % 26) as u8) as char);
        }
        if src.chance(2, 3) {
            s.push_str("\r\n");
        }
    }
    let mut case = Case::new(cols, rows, Some(limit));
    case.calls = match src.below(4) {
        0 => vec![Call::FeedStr(s)],
        1 => s.chars().map(|c| Call::FeedStr(c.to_string())).collect(),
        2 => {
            // one screen row per call
            let chars: Vec<char> = s.chars().collect();
            chars.chunks(cols).map(|c| Call::FeedStr(c.iter().collect())).collect()
        }
        _ => chunk(src, &s),
    };
    case.calls.push(Call::FeedStr(CLOSING.to_string()));
    case
}

/// bulk: a single feed_str call scrolls off hundreds to thousands of lines (more than any
/// batching threshold such as 255/256/1024/4096/8192), under small and large limits
pub fn gen_bulk(src: &mut Src, _i: usize) -> Case {
    let (cols, rows) = if src.chance(1, 3) { (80, 24) } else { gen::small_size(src) };
    let limit = *src.pick(&[0usize, 0, 1, 9, 10, 100, 1000, 1024]);
    let mut case = Case::new(cols, rows, Some(limit));
    let n_chunks = src.range(1, 3);
    for c in 0..n_chunks {
        let mut s = String::new();
        if src.chance(1, 4) {
            s.push_str("\x1b[?1049hALT\n\n\n\x1b[?1049l");
        }
        let lines = *src.pick(&[255usize, 256, 300, 1023, 1024, 1025, 2048, 4097, 8193, 9000]);
        match src.below(3) {
            0 => {
                for k in 0..lines {
                    s.push_str(&format!("c{}l{}\r\n", c, k));
                }
            }
            1 => {
                // one huge soft-wrapped run
                for k in 0..lines * cols {
                    s.push((b'a' + (k % 26) as u8) as char);
                }
                s.push_str("\r\n");
            }
            _ => {
                for k in 0..lines / 8 + 1 {
                    s.push_str(&format!("x{}\r\n\x1b[7S", k));
                }
            }
        }
        case.calls.push(Call::FeedStr(s));
        if src.chance(1, 2) {
            case.calls.push(Call::FeedStr(format!("tail {}\r\n", c)));
        }
    }
    case.calls.push(Call::FeedStr(CLOSING.to_string()));
    case
}

/// long sessions: hundreds of chunks, thousands of lines, limits up to 1024
pub fn gen_long_session(src: &mut Src, _i: usize) -> Case {
    let (cols, rows) = if src.chance(1, 3) { (80, 24) } else { gen::small_size(src) };
    let limit = *src.pick(&[0usize, 9, 10, 100, 255, 256, 1000, 1024]);
    let g = G::new(cols, rows).no_ris();
    let mut case = Case::new(cols, rows, Some(limit));
    let n = src.range(100, 400);
    let mut tr = ScreenTracker::new();
    for k in 0..n {
        let mut s = String::new();
        match src.below(20) {
            0 => s.push_str(&gen::frag(src, &g)),
            1 => s.push_str(*src.pick(&["\x1b[?1049h", "\x1b[?1049l", "\x1b[H\x1b[2M", "\x1b[5S"])),
            2 => {
                for j in 0..src.range(1, 3 * cols) {
                    s.push((b'a' + ((k + j) % 26) as u8) as char);
                }
            }
            _ => {
                for j in 0..src.range(1, 10) {
                    s.push_str(&format!("row {} of chunk {}\r\n", j, k));
                }
            }
        }
        if s.contains("[3J") {
            continue;
        }
        let mut t2 = tr.clone();
        t2.feed_str(&s);
        if t2.saw_ris {
            continue;
        }
        tr = t2;
        case.calls.push(Call::FeedStr(s));
    }
    case.calls.push(Call::FeedStr(CLOSING.to_string()));
    case
}

/// enumerated: the scroll-off paths named in the property x every limit x chunk sizes
fn enum_paths() -> Vec<Case> {
    let mut v = vec![];
    let bodies: Vec<String> = vec![
        (0..40).map(|i| format!("line {}\r\n", i)).collect::<String>(),
        (0..200).map(|i| ((b'a' + (i % 26) as u8) as char).to_string()).collect::<String>(),
        format!("{}\x1b[H\x1b[5M{}", (0..12).map(|i| format!("l{}\r\n", i)).collect::<String>(), "tail\n\n\n"),
        format!("{}\x1b[1;2r{}", (0..6).map(|i| format!("r{}\r\n", i)).collect::<String>(), (0..9).map(|i| format!("\x1b[2;1Hs{}\n", i)).collect::<String>()),
        format!("{}\x1b[?1049h{}\x1b[?1049l{}", "before\r\nalt\r\n".repeat(4), "garbage\n".repeat(12), "after\r\n".repeat(6)),
        format!("{}\x1b[9S{}\x1b[65535S", "abcdefghijklmnopqrstuvwxyz".repeat(3), "xyz\r\n".repeat(3)),
        format!("\x1b[41m{}\x1b[0m{}", "red\r\n".repeat(8), "plain\r\n".repeat(8)),
    ];
    for (cols, rows) in [(5usize, 3usize), (8, 2), (3, 4)] {
        for limit in [0usize, 1, 2, 5, 9, 10, 11, 25] {
            for body in &bodies {
                for piece in [1usize, 7, 1000] {
                    let chars: Vec<char> = body.chars().collect();
                    let mut c = Case::new(cols, rows, Some(limit));
                    for ch in chars.chunks(piece) {
                        c.calls.push(Call::FeedStr(ch.iter().collect()));
                    }
                    c.calls.push(Call::FeedStr(CLOSING.to_string()));
                    v.push(c);
                }
            }
        }
    }
    v
}

pub fn run(env: &Env) -> PropRun {
    let j = |c: &Case, t: &mut Tally| judge("", c, t);
    let mut parts = vec![];
    let ep = enum_paths();
    parts.push(run_part(env, "enum-paths", ep.len(), true, "3 sizes x 8 limits x 7 session bodies (LF flood, long wrapped line, DL at the top row, top-anchored partial region, 1049 excursion with garbage, SU incl. 65535, coloured lines) x chunk sizes {1,7,whole}", &|i| ep.get(i).cloned(), &j));
    parts.push(random_part(env, "bulk-chunks", env.tier.scale(160, 20), &gen_bulk, &j));
    parts.push(random_part(env, "long-sessions", env.tier.scale(300, 30), &gen_long_session, &j));
    parts.push(random_part(env, "wrapped-lines", env.tier.scale(60_000, 30), &gen_wrapped, &j));
    parts.push(random_part(env, "giant-lines", env.tier.scale(6_000, 30), &gen_giant_lines, &j));
    parts.push(random_part(env, "random-sessions", env.tier.scale(60_000, 30), &gen_case, &j));
    parts.push(random_part(env, "mixed-feed-calls", env.tier.scale(60_000, 30), &gen_mixed_feed, &j));
    PropRun {
        parts,
        meta: EvidenceMeta {
            rule: "Each session (feed_str chunks, no RIS, no resize, closed by CAN + CSI ?1047l so that it provably ends in ground state on the primary screen) runs on a limit-L terminal, collecting every Changes.scrollback line, and on an unlimited terminal: collected ++ limited.lines() == unlimited.lines() as Vec<Line> (exact equality incl. pens and wrap marks). TextCollector over the same chunks / the whole input / limit 0 / unlimited must yield the same lines (trailing empty lines aside) and match text() up to trailing blanks. Non-trivial = at least one chunk handed out lines and (an alternate-screen excursion happened or a soft-wrapped logical line straddles a trim point).".into(),
            assumptions: vec!["RIS is recognised exactly by the reference parser (ESC c is never out of domain)".into()],
            not_compared: vec!["ED 3 is kept out of the generator".into(), "TextCollector results are compared modulo trailing empty lines (flush strips them only from its own part)".into()],
        },
        extra: serde_json::json!({}),
    }
}
