//! C18 — tab stops: defaults every 8 columns, editable, and correct across resizes.

use super::PropRun;
use crate::case::{new_vt, Call, Case, Verdict};
use crate::engine::{random_part, run_part, Env, EvidenceMeta, Tally, Tier};
use crate::gen;
use crate::reffn::RefFn;
use crate::spec::{classes, compare_step, kind, Class};
use crate::src::Src;
use crate::walk::{Event, WalkEnd, Walker};
use avt::Vt;

/// Read the tab stops of a terminal through cursor movement only (destroys the replica).
pub fn probe_stops(vt: &mut Vt) -> Vec<usize> {
    let (cols, _) = vt.size();
    let mut stops = vec![];
    let _ = vt.feed_str("\x18\r");
    if cols == 1 {
        return stops;
    }
    let mut last = 0usize;
    for _ in 0..cols + 1 {
        let _ = vt.feed_str("\t");
        let c = vt.cursor().col;
        if c == last {
            break;
        }
        if c < cols - 1 {
            stops.push(c);
        }
        last = c;
    }
    // is there a stop in the last column? park the cursor in the wrap-pending position
    // (col == cols) and tab backwards once
    let _ = vt.feed_str(&format!("\x1b[?7h\x1b[{}Gx", cols));
    if vt.cursor().col == cols {
        let _ = vt.feed_str("\x1b[Z");
        if vt.cursor().col == cols - 1 {
            stops.push(cols - 1);
        }
    }
    stops
}

/// backward reading (CBT) from the last column: stops strictly left of it, descending
pub fn probe_stops_backward(vt: &mut Vt) -> Vec<usize> {
    let (cols, _) = vt.size();
    let mut stops = vec![];
    let _ = vt.feed_str(&format!("\x18\x1b[{}G", cols));
    let mut last = vt.cursor().col;
    for _ in 0..cols + 1 {
        let _ = vt.feed_str("\x1b[Z");
        let c = vt.cursor().col;
        if c == last {
            break;
        }
        if c > 0 {
            stops.push(c);
        }
        last = c;
    }
    stops.reverse();
    stops
}

pub fn judge(_part: &str, case: &Case, tally: &mut Tally) -> Verdict {
    let mut w = Walker::new(case);
    let mut dirty = true;
    let mut customised = false;
    let mut resized_from_mult8 = false;
    let mut survived_custom = false;
    let check = |wk: &Walker, tally: &mut Tally, customised: bool| -> Option<Verdict> {
        let want: Vec<usize> = wk.modes.tabs.iter().copied().collect();
        let got = probe_stops(&mut wk.replica());
        tally.steps += 1;
        if got != want {
            return Some(Verdict::fail("stops", format!("tab stops at width {}: observed {:?}, expected {:?}", wk.cols, got, want)));
        }
        let back = probe_stops_backward(&mut wk.replica());
        let want_back: Vec<usize> = want.iter().copied().filter(|t| *t < wk.cols - 1).collect();
        if back != want_back {
            return Some(Verdict::fail("stops-backward", format!("tab stops read with CBT at width {}: observed {:?}, expected {:?}", wk.cols, back, want_back)));
        }
        // counted moves on one replica (they only move the cursor): CHT k from column 0 and
        // CBT k from the last column must land on the k-th stop or on the last / first column
        if wk.cols >= 2 {
            let mut v = wk.replica();
            let _ = v.feed_str("\x18");
            let n = want.len();
            let mut ks = vec![2usize, 3, 4, n, n + 1];
            ks.dedup();
            for k in ks {
                if k == 0 {
                    continue;
                }
                let _ = v.feed_str(&format!("\r\x1b[{}I", k));
                let exp = want.get(k - 1).copied().unwrap_or(wk.cols - 1);
                let got = v.cursor().col;
                if got != exp {
                    return Some(Verdict::fail("cht-count", format!("CHT {} from column 0 at width {} landed on column {}, expected {} (stops {:?})", k, wk.cols, got, exp, want)));
                }
                let _ = v.feed_str(&format!("\x1b[{}G\x1b[{}Z", wk.cols, k));
                let left: Vec<usize> = want.iter().copied().filter(|t| *t < wk.cols - 1).collect();
                let exp = if k <= left.len() { left[left.len() - k] } else { 0 };
                let got = v.cursor().col;
                if got != exp {
                    return Some(Verdict::fail("cbt-count", format!("CBT {} from the last column at width {} landed on column {}, expected {} (stops {:?})", k, wk.cols, got, exp, want)));
                }
            }
        }
        if !customised {
            let fresh = probe_stops(&mut new_vt(wk.cols, wk.rows, None));
            if got != fresh {
                return Some(Verdict::fail("stops-vs-fresh", format!("never-customised terminal at width {} has stops {:?}, a fresh terminal of that width has {:?}", wk.cols, got, fresh)));
            }
        }
        None
    };
    let end = w.walk(case, &mut |wk, ev| match ev {
        Event::Step(rec) => {
            let cls = classes(&rec);
            if matches!(rec.f, RefFn::Hts | RefFn::Ctc(_) | RefFn::Tbc(_)) {
                dirty = true;
                customised = true;
            }
            if matches!(rec.f, RefFn::Ris) {
                dirty = true;
                customised = false;
            }
            // screen switches and soft reset must leave the stops alone: re-read after them
            if matches!(rec.f, RefFn::Decset(_) | RefFn::Decrst(_) | RefFn::Decstr) {
                dirty = true;
            }
            if cls.contains(&Class::Tabs) {
                tally.steps += 1;
                match rec.f {
                    RefFn::Cht(n) | RefFn::Cbt(n) => {
                        if *n as usize > rec.m_pre.tabs.len() {
                            tally.class("count_exceeds_stops");
                            tally.nontrivial = true;
                        }
                    }
                    _ => {}
                }
                if let Some(m) = compare_step(&rec) {
                    return Some(Verdict::fail(
                        format!("{}-{}", kind(rec.f), m.what),
                        format!("after {:?}: {}; tab stops per tracker {:?}; cursor before ({},{})", rec.f, m.detail, rec.m_pre.tabs, rec.pre.col, rec.pre.row),
                    ));
                }
            }
            None
        }
        Event::Resized { from, to, .. } => {
            dirty = true;
            if from.0 != to.0 {
                if from.0 % 8 == 0 || (from.0 / 8 != to.0 / 8) {
                    tally.class("resize_from_or_across_multiple_of_8");
                    tally.nontrivial = true;
                    resized_from_mult8 = true;
                }
                if customised {
                    tally.class("customised_stops_across_resize");
                    tally.nontrivial = true;
                    survived_custom = true;
                }
            }
            None
        }
        Event::CallEnd { .. } => {
            if dirty {
                dirty = false;
                if let Some(v) = check(wk, tally, customised) {
                    return Some(v);
                }
            }
            None
        }
    });
    let _ = (resized_from_mult8, survived_custom);
    match end {
        WalkEnd::Done => {
            if case.calls.is_empty() {
                if let Some(v) = check(&w, tally, false) {
                    return v;
                }
                tally.nontrivial = case.cols % 8 == 0 || case.cols % 8 == 1;
            }
            Verdict::Pass
        }
        WalkEnd::Stopped(v) => v,
    }
}

pub fn gen_random(src: &mut Src, _i: usize) -> Case {
    let cols = match src.below(10) {
        0 => 80,
        1 => *src.pick(&[100usize, 255, 256, 257, 300, 520]),
        2 => *src.pick(&[8usize, 16, 24, 32, 40]),
        3 => *src.pick(&[9usize, 17, 25, 33]),
        _ => src.range(1, 40),
    };
    let rows = src.range(1, 3);
    let mut case = Case::new(cols, rows, None);
    let mut cur_cols = cols;
    let n = src.range(1, 10);
    for _ in 0..n {
        match src.below(10) {
            0 | 1 => {
                let c = match src.below(6) {
                    0 => (cur_cols / 8) * 8 + *src.pick(&[0usize, 8, 16]),
                    1 => cur_cols + src.range(1, 20),
                    2 => cur_cols.saturating_sub(src.range(1, 10)).max(1),
                    3 => *src.pick(&[1usize, 7, 8, 9, 15, 16, 17, 24, 31, 32, 33, 79, 80, 81, 100]),
                    _ => src.range(1, 48),
                }
                .max(1);
                case.calls.push(Call::Resize(c, if src.chance(1, 4) { src.range(1, 4) } else { rows }));
                cur_cols = c;
            }
            _ => {
                let k = src.range(1, 5);
                let mut s = String::new();
                for _ in 0..k {
                    let g = gen::G::new(cur_cols, rows);
                    match src.below(12) {
                        0 | 1 => s.push_str(&format!("\x1b[{}G", gen::num(src, &g, cur_cols))),
                        2 => s.push_str(&format!("\x1b[{}G", src.range(1, cur_cols + 1))),
                        3 => {
                            // wrap-pending position
                            s.push_str(&format!("\x1b[{}Gx", cur_cols));
                        }
                        4 | 5 => s.push_str(*src.pick(&["\x1bH", "\u{88}", "\x1b[W", "\x1b[0W"])),
                        6 => s.push_str(*src.pick(&["\x1b[g", "\x1b[0g", "\x1b[2W"])),
                        7 => {
                            if src.chance(1, 3) {
                                s.push_str(*src.pick(&["\x1b[3g", "\x1b[5W"]))
                            } else {
                                s.push('\r')
                            }
                        }
                        8 => s.push('\t'),
                        9 => s.push_str(&format!("\x1b[{}I", gen::num(src, &g, (cur_cols / 8).max(1)))),
                        10 => s.push_str(&format!("\x1b[{}Z", gen::num(src, &g, (cur_cols / 8).max(1)))),
                        _ => s.push_str(*src.pick(&["\r", "\x08", "ab", "\x1b[?7l", "\x1b[?7h", "\x1b[!p", "\x1b[?1049h", "\x1b[?1049l", "\x1b[?47h", "\x1b[?47l", "\x1b[?1047h", "\x1b[?1047l", "\x1b[?1049h", "\x1b[?1049l"])),
                    }
                }
                case.calls.push(Call::FeedStr(s));
            }
        }
    }
    case
}

pub const TRIPLE_SET: [usize; 16] = [1, 7, 8, 9, 15, 16, 17, 24, 31, 32, 33, 79, 80, 81, 100, 132];

pub fn run(env: &Env) -> PropRun {
    let j = |c: &Case, t: &mut Tally| judge("", c, t);
    let maxw = if env.tier == Tier::Thorough { 200 } else { 140 };
    let mut parts = vec![];
    parts.push(run_part(env, "enum-fresh-widths", maxw, true, &format!("every width 1..={}", maxw), &|i| Some(Case::new(i + 1, 1, None)), &j));
    parts.push(run_part(
        env,
        "enum-resize-pairs",
        maxw * maxw,
        true,
        &format!("every resize w1 -> w2 with w1, w2 in 1..={} on a never-customised terminal", maxw),
        &|i| {
            let (a, b) = (i / maxw + 1, i % maxw + 1);
            Some(Case::new(a, 2, None).resize(b, 2))
        },
        &j,
    ));
    let ts = TRIPLE_SET.len();
    parts.push(run_part(
        env,
        "enum-resize-triples",
        ts * ts * ts,
        true,
        "every resize chain w1 -> w2 -> w3 over {1,7,8,9,15,16,17,24,31,32,33,79,80,81,100,132} on a never-customised terminal",
        &|i| Some(Case::new(TRIPLE_SET[i / (ts * ts)], 1, None).resize(TRIPLE_SET[(i / ts) % ts], 1).resize(TRIPLE_SET[i % ts], 1)),
        &j,
    ));
    // magnitudes: widths around 255/256/512/1024 and far resizes
    let wide: Vec<usize> = vec![250, 254, 255, 256, 257, 258, 264, 300, 511, 512, 513, 1000, 1023, 1024, 1025, 1100];
    let nw = wide.len();
    parts.push(run_part(env, "enum-wide", nw + nw * nw, true, "fresh widths {250..1100 boundary set} and every resize between them", &|i| {
        if i < nw {
            Some(Case::new(wide[i], 1, None))
        } else {
            let k = i - nw;
            Some(Case::new(wide[k / nw], 1, None).resize(wide[k % nw], 1))
        }
    }, &j));
    // tab stops are one set for both screens: resizes during an alternate-screen excursion
    let spell = [("\x1b[?1049h", "\x1b[?1049l"), ("\x1b[?47h", "\x1b[?47l"), ("\x1b[?1047h", "\x1b[?1049l")];
    let custom = ["", "\x1b[20G\x1bH", "\x1b[9G\x1b[g", "\x1b[3g\x1b[5G\x1bH"];
    parts.push(run_part(
        env,
        "enum-alt-excursion",
        ts * ts * spell.len() * custom.len() * 2,
        true,
        "w1 -> w2 over the 16 boundary widths, resized while the alternate screen shows (3 enter/leave spellings), x 4 customisations made before entering or while on the alternate screen; stops read after the resize and after leaving",
        &|i| {
            let (w1, w2) = (TRIPLE_SET[i % ts], TRIPLE_SET[(i / ts) % ts]);
            let k = i / (ts * ts);
            let (enter, leave) = spell[k % spell.len()];
            let cu = custom[(k / spell.len()) % custom.len()];
            let on_alt = k / (spell.len() * custom.len()) == 1;
            let mut c = Case::new(w1, 2, None);
            if on_alt {
                c = c.feed(enter).feed(cu);
            } else {
                c = c.feed(cu).feed(enter);
            }
            Some(c.resize(w2, 2).feed(leave).feed("\r"))
        },
        &j,
    ));
    parts.push(random_part(env, "random-sequences", env.tier.scale(100_000, 30), &gen_random, &j));
    PropRun {
        parts,
        meta: EvidenceMeta {
            rule: "After every call that touched tab stops or resized, the stops are read back on a replica through CR+HT.. (forward), CBT.. (backward) and a wrap-pending CBT (last column), and compared with the tracker's set (defaults every 8 columns; set/clear at the cursor column except column 0 and the wrap-pending position; narrowing drops stops >= width, widening adds every multiple of 8 in [old,new)); a never-customised terminal is also compared with a fresh terminal of the same width; every HT/CHT/CBT step must land on the n-th next/previous tracker stop or the last/first column, and CHT k / CBT k for k in {2,3,4,#stops,#stops+1} are read on a replica at every check. Histories include alternate-screen excursions (one stop set for both screens). Non-trivial = a resize from or across a multiple of 8, customised stops surviving a resize, or a count larger than the number of stops.".into(),
            assumptions: vec!["tab stops are observed only through cursor movement".into()],
            not_compared: vec![],
        },
        extra: serde_json::json!({}),
    }
}
