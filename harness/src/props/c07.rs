//! C07 — erase, insert and delete touch exactly their documented extent.

use super::c05::param_classes;
use super::{product, radix, PropRun};
use crate::case::{Case, Verdict};
use crate::engine::{random_part, run_part, Env, EvidenceMeta, Tally};
use crate::gen;
use crate::reffn::RefFn;
use crate::spec::{spec_judge, Class, SpecOpts};
use crate::src::Src;
use crate::walk::StepRec;

pub const SIZES: [(usize, usize); 8] = [(1, 1), (2, 1), (1, 3), (3, 2), (4, 3), (8, 2), (9, 3), (16, 2)];
const PENS: [&str; 3] = ["", "\x1b[45m", "\x1b[7;33m"];
/// mode set-ups that must not influence (and must not be influenced by) editing
const MODES: [&str; 4] = ["", "\x1b[4h", "\x1b[?6h", "\x1b[?7l\x1b[20h"];

fn commands(cols: usize) -> Vec<String> {
    let mut v: Vec<String> = vec![];
    for f in ['J', 'K'] {
        for p in ["", "0", "1", "2"] {
            v.push(format!("\x1b[{}{}", p, f));
        }
    }
    for f in ['X', '@', 'P'] {
        for p in param_classes(cols) {
            v.push(format!("\x1b[{}{}", p, f));
        }
        // counts relative to the distance to the row end are covered because every
        // cursor column is enumerated
    }
    v.push("\x1b#8".into());
    v
}

fn on_step(rec: &StepRec, t: &mut Tally) {
    let m = rec.m_pre;
    let cols = rec.pre.cols;
    let pending = rec.pre.col >= cols;
    let marked = rec.pre.wraps[rec.pre.row];
    let nd_pen = m.pen != crate::model::PenSpec::default();
    let changed_cells: usize = (0..rec.pre.rows).map(|r| (0..cols).filter(|c| rec.pre.cells[r][*c] != rec.exp.cells[r][*c]).count()).sum();
    let whole = changed_cells == cols * rec.pre.rows;
    if pending {
        t.class("wrap_pending_cursor");
    }
    if marked {
        t.class("row_soft_wrapped");
    }
    if nd_pen {
        t.class("non_default_pen");
    }
    if rec.pre.wraps != rec.exp.wraps {
        t.class("clears_wrap_mark");
    }
    match rec.f {
        RefFn::Ed(_) => t.class("ED"),
        RefFn::El(_) => t.class("EL"),
        RefFn::Ech(_) => t.class("ECH"),
        RefFn::Ich(_) => t.class("ICH"),
        RefFn::Dch(_) => t.class("DCH"),
        RefFn::Decaln => t.class("DECALN"),
        _ => {}
    }
    if (changed_cells > 0 && !whole) || pending || nd_pen || marked {
        t.nontrivial = true;
    }
}

pub fn judge(_part: &str, case: &Case, tally: &mut Tally) -> Verdict {
    let v = spec_judge(case, &SpecOpts { own: Class::Edit, scrollback: true }, tally, &mut on_step);
    if v != Verdict::Pass {
        return v;
    }
    // "all modes stay exactly as they were": metamorphic frame check under the probe battery
    if case.nums.first() == Some(&1) {
        let pure = |f: &RefFn| matches!(f, RefFn::Ed(0..=2) | RefFn::El(_) | RefFn::Ech(_) | RefFn::Ich(_) | RefFn::Dch(_) | RefFn::Decaln);
        if let Some(v) = crate::spec::mode_frame_check(case, &pure, tally) {
            return v;
        }
    }
    Verdict::Pass
}

pub fn gen_random(src: &mut Src, _i: usize) -> Case {
    use gen::*;
    burst_case(
        src,
        true,
        true,
        10,
        6,
        &[(CAT_ERASE, 8), (CAT_EDIT, 10), (CAT_TEXT, 5), (CAT_FILL, 4), (CAT_CUP, 4), (CAT_REL, 2), (CAT_SGR, 3), (CAT_DECALN, 1), (CAT_C0, 2), (CAT_STBM, 1), (CAT_DECMODE, 1)],
        16,
    )
}

pub fn run(env: &Env) -> PropRun {
    struct Block {
        cols: usize,
        rows: usize,
        cmds: Vec<String>,
        dims: [usize; 6],
        total: usize,
    }
    let blocks: Vec<Block> = SIZES
        .iter()
        .map(|&(cols, rows)| {
            let cmds = commands(cols);
            let dims = [rows, cols + 1, PENS.len(), 3, MODES.len(), cmds.len()];
            let total = product(&dims);
            Block { cols, rows, cmds, dims, total }
        })
        .collect();
    let total: usize = blocks.iter().map(|b| b.total).sum();
    let make = |mut i: usize| -> Option<Case> {
        for b in &blocks {
            if i < b.total {
                let d = radix(i, &b.dims)?;
                let (row, col) = (d[0], d[1]);
                let mut s = String::new();
                if d[3] == 0 {
                    // scrollback whose newest row is soft-wrapped into the first screen row:
                    // rows above the view are "every other row" too
                    s.push_str(&"#".repeat(b.cols * (b.rows + 1)));
                }
                s.push_str(&gen::fill_screen_mode(b.cols, b.rows, d[3]));
                s.push_str(PENS[d[2]]);
                // modes first (?6h homes), then the cursor; with origin mode on and full
                // margins CUP still reaches every row
                s.push_str(MODES[d[4]]);
                let auto_wrap_off = d[4] == 3;
                if col >= b.cols && auto_wrap_off {
                    // wrap-pending needs auto-wrap on while printing: enable, park, disable
                    s.push_str(&format!("\x1b[?7h\x1b[{};{}Hx\x1b[?7l", row + 1, b.cols));
                } else {
                    s.push_str(&format!("\x1b[{};{}H", row + 1, col.min(b.cols - 1) + 1));
                    if col >= b.cols {
                        s.push('x');
                    }
                }
                return Some(Case::new(b.cols, b.rows, None).feed(s).feed(b.cmds[d[5]].clone()).with_nums(vec![1]));
            }
            i -= b.total;
        }
        None
    };
    let j = |c: &Case, t: &mut Tally| judge("", c, t);
    let mut parts = vec![];
    parts.push(run_part(
        env,
        "enum-tiny",
        total,
        true,
        "sizes {1x1,2x1,1x3,3x2,4x3,8x2,9x3,16x2} x every cursor cell incl. wrap-pending x 3 pens x {wrapped, unwrapped, sparse} content x 4 mode set-ups x {ED 0-2, EL 0-2, ECH/ICH/DCH x count classes, DECALN}; each also with the mode-frame metamorphic check",
        &make,
        &j,
    ));
    // every margin pair x origin mode on/off x every cursor cell - also rows above and below
    // the region with origin mode ON, which only a restored cursor reaches (c05::setup)
    {
        let mut oc: Vec<Case> = vec![];
        for (cols, rows) in [(3usize, 3usize), (4, 4)] {
            let cmds = commands(cols);
            for m in super::c05::margin_options(rows) {
                if m.is_none() {
                    continue;
                }
                for origin in [false, true] {
                    for row in 0..rows {
                        for col in [0usize, cols / 2, cols - 1, cols] {
                            for cmd in &cmds {
                                let mut s = gen::fill_screen_mode(cols, rows, 1);
                                s.push_str("\x1b[45m");
                                s.push_str(&super::c05::setup(cols, rows, m, origin, row, col));
                                oc.push(Case::new(cols, rows, None).feed(s).feed(cmd.clone()));
                            }
                        }
                    }
                }
            }
        }
        parts.push(run_part(env, "enum-regions-origin", oc.len(), true, "sizes {3x3,4x4} x every proper scroll region x origin mode on/off x every row (inside, above, below the region) x 4 columns incl. wrap-pending x every editing command and count class, non-default pen", &|i| oc.get(i).cloned(), &j));
    }
    if env.tier == crate::engine::Tier::Thorough {
        // all ordered pairs of editing commands on 4x3 and 3x2
        struct PB {
            cols: usize,
            rows: usize,
            cmds: Vec<String>,
            dims: [usize; 7],
            total: usize,
        }
        let pbs: Vec<PB> = [(4usize, 3usize), (3, 2)]
            .iter()
            .map(|&(cols, rows)| {
                let cmds = commands(cols);
                let dims = [rows, cols + 1, PENS.len(), 3, 2, cmds.len(), cmds.len()];
                let total = product(&dims);
                PB { cols, rows, cmds, dims, total }
            })
            .collect();
        let ptotal: usize = pbs.iter().map(|b| b.total).sum();
        let pmake = |mut i: usize| -> Option<Case> {
            for b in &pbs {
                if i < b.total {
                    let d = radix(i, &b.dims)?;
                    let mut s = gen::fill_screen_mode(b.cols, b.rows, d[3]);
                    s.push_str(PENS[d[2]]);
                    if d[4] == 1 {
                        s.push_str("\x1b[4h");
                    }
                    s.push_str(&format!("\x1b[{};{}H", d[0] + 1, d[1].min(b.cols - 1) + 1));
                    if d[1] >= b.cols {
                        s.push('x');
                    }
                    return Some(Case::new(b.cols, b.rows, None).feed(s).feed(b.cmds[d[5]].clone()).feed(b.cmds[d[6]].clone()));
                }
                i -= b.total;
            }
            None
        };
        parts.push(run_part(env, "enum-pairs", ptotal, true, "4x3 and 3x2: every cursor cell incl. wrap-pending x 3 pens x 3 content modes x insert on/off x all ordered pairs of the editing commands", &pmake, &j));
    }
    {
        use gen::*;
        let gl = |src: &mut Src, _i: usize| large_case(src, true, &[(CAT_ERASE, 8), (CAT_EDIT, 10), (CAT_TEXT, 4), (CAT_CUP, 5), (CAT_REL, 3), (CAT_SGR, 3), (CAT_DECALN, 1)], 12);
        parts.push(random_part(env, "large-screens", env.tier.scale(500, 40), &gl, &j));
    }
    parts.push(random_part(env, "random-histories", env.tier.scale(60_000, 40), &gen_random, &j));
    PropRun {
        parts,
        meta: EvidenceMeta {
            rule: "Every ED/EL/ECH/ICH/DCH/DECALN step is compared cell-for-cell (chars, pens), mark-for-mark and cursor with the one-step spec. Enumerated cases additionally check that nothing but the visible effect changed: (history, cmd, wipe) must be observationally equivalent (probe battery) to (history, wipe). Non-trivial = extent neither empty nor the whole screen, or wrap-pending cursor, or non-default pen, or a soft-wrapped row.".into(),
            assumptions: vec!["which edits clear the cursor row's soft-wrap mark is pinned to the statement + mechanism (EL 0/2, ED 0, ECH reaching the row end, DCH)".into()],
            not_compared: vec!["ED 3 (not generated)".into()],
        },
        extra: serde_json::json!({}),
    }
}
