//! C17 — save/restore cursor round-trips the full context, per screen.

use super::PropRun;
use crate::case::{new_vt, Call, Case, Verdict};
use crate::engine::{random_part, run_part, Env, EvidenceMeta, Tally};
use crate::gen::{self, G};
use crate::model::PenSpec;
use crate::reffn::RefFn;
use crate::src::Src;
use crate::walk::{Event, WalkEnd, Walker};

#[derive(Clone, Debug, PartialEq)]
struct Ctx {
    pos: (usize, usize),
    pen: PenSpec,
    autowrap: bool,
    /// None when origin mode is not observable (fewer than 3 rows)
    origin: Option<bool>,
}

#[derive(Clone, Debug)]
enum Slot {
    Default,
    Known { ctx: Ctx, resized: bool },
    Unknown,
}

fn replica(init: (usize, usize), limit: Option<usize>, hist: &[Call]) -> avt::Vt {
    let mut vt = new_vt(init.0, init.1, limit);
    crate::case::apply_calls(&mut vt, hist);
    vt
}

/// behavioural read-out of (position, pen, auto-wrap, origin) of the state reached by `hist`
fn probe(init: (usize, usize), limit: Option<usize>, hist: &[Call]) -> Ctx {
    let a = replica(init, limit, hist);
    let (cols, rows) = a.size();
    let c = a.cursor();
    let pos = (c.col.min(cols - 1), c.row);
    let mut p = replica(init, limit, hist);
    let _ = p.feed_str("\x18\rX");
    let pc = p.cursor();
    let pen = PenSpec::of(p.view()[pc.row][0].pen());
    let mut w = replica(init, limit, hist);
    let _ = w.feed_str("\x18\x1b[4l\r");
    let _ = w.feed_str(&"X".repeat(cols));
    let autowrap = w.cursor().col == cols;
    let origin = if rows >= 3 {
        let mut o = replica(init, limit, hist);
        let _ = o.feed_str(&format!("\x18\x1b[2;{}r\x1b[1;1H", rows));
        Some(o.cursor().row == 1)
    } else {
        None
    };
    Ctx { pos, pen, autowrap, origin }
}

fn default_ctx(rows: usize) -> Ctx {
    Ctx { pos: (0, 0), pen: PenSpec::default(), autowrap: true, origin: if rows >= 3 { Some(false) } else { None } }
}

enum Kind {
    Save,
    Restore,
    /// a mode list that mixes a save/restore with other modes: slot becomes unknown
    Mixed,
    None,
}

fn classify(f: &RefFn) -> Kind {
    match f {
        RefFn::Decsc | RefFn::Scosc => Kind::Save,
        RefFn::Decrc | RefFn::Scorc => Kind::Restore,
        RefFn::Decset(ms) => {
            if ms.iter().any(|m| *m == 1048 || *m == 1049) {
                if ms.len() == 1 {
                    Kind::Save
                } else {
                    Kind::Mixed
                }
            } else {
                Kind::None
            }
        }
        RefFn::Decrst(ms) => {
            if ms.iter().any(|m| *m == 1048 || *m == 1049) {
                if ms.len() == 1 {
                    Kind::Restore
                } else {
                    Kind::Mixed
                }
            } else {
                Kind::None
            }
        }
        _ => Kind::None,
    }
}

pub fn judge(_part: &str, case: &Case, tally: &mut Tally) -> Verdict {
    let mut w = Walker::new(case);
    // slot 0 = primary, 1 = alternate
    let mut slots: [Slot; 2] = [Slot::Default, Slot::Default];
    let init = (case.cols, case.rows);
    let limit = case.limit;
    let end = w.walk(case, &mut |wk, ev| {
        match ev {
            Event::Step(rec) => {
                let was_alt = rec.m_pre.alt as usize;
                let now_alt = rec.m_post.alt as usize;
                match rec.f {
                    RefFn::Ris => {
                        slots = [Slot::Default, Slot::Default];
                        return None;
                    }
                    RefFn::Decstr => {
                        slots[was_alt] = Slot::Default;
                        return None;
                    }
                    _ => {}
                }
                match classify(rec.f) {
                    Kind::None => None,
                    Kind::Mixed => {
                        slots[was_alt] = Slot::Unknown;
                        slots[now_alt] = Slot::Unknown;
                        None
                    }
                    Kind::Save => {
                        // state in force right before the save: the history without this chunk
                        // (a chunk carries exactly one function, preceded at most by material
                        // that dispatches nothing)
                        let mut hist = wk.hist.clone();
                        hist.pop();
                        let ctx = probe(init, limit, &hist);
                        tally.steps += 1;
                        if rec.pre.col >= rec.pre.cols {
                            tally.class("wrap_pending_at_save");
                        }
                        slots[was_alt] = Slot::Known { ctx, resized: false };
                        None
                    }
                    Kind::Restore => {
                        // ?1049l restores on the primary screen; the others on the active one
                        let is_1049 = matches!(rec.f, RefFn::Decrst(ms) if ms.contains(&1049));
                        let target = if is_1049 { 0 } else { was_alt };
                        if is_1049 && rec.stale_primary {
                            // the primary was re-flowed on re-activation: position is only
                            // required to be inside the screen (checked below through resized)
                        }
                        let got = probe(init, limit, &wk.hist);
                        tally.steps += 1;
                        let (cols, rows) = (wk.cols, wk.rows);
                        let (want, resized) = match &slots[target] {
                            Slot::Unknown => return None,
                            Slot::Default => (default_ctx(rows), false),
                            Slot::Known { ctx, resized } => (ctx.clone(), *resized),
                        };
                        let spelled = format!("{:?}", rec.f);
                        if resized || (is_1049 && rec.stale_primary) {
                            tally.class("resize_between");
                            let c = wk.vt.cursor();
                            if c.col >= cols || c.row >= rows {
                                return Some(Verdict::fail("restore-outside", format!("after {} following a resize the cursor ({},{}) is outside the {}x{} screen", spelled, c.col, c.row, cols, rows)));
                            }
                        } else if got.pos != want.pos {
                            return Some(Verdict::fail("restore-pos", format!("after {} the cursor is at {:?}, the most recent save on this screen was at {:?}", spelled, got.pos, want.pos)));
                        }
                        if got.pen != want.pen {
                            return Some(Verdict::fail("restore-pen", format!("after {} the pen is {:?}, saved pen was {:?}", spelled, got.pen, want.pen)));
                        }
                        if got.autowrap != want.autowrap {
                            return Some(Verdict::fail("restore-autowrap", format!("after {} auto-wrap is {}, saved value was {}", spelled, got.autowrap, want.autowrap)));
                        }
                        if let (Some(a), Some(b)) = (got.origin, want.origin) {
                            if a != b {
                                return Some(Verdict::fail("restore-origin", format!("after {} origin mode is {}, saved value was {}", spelled, a, b)));
                            }
                        }
                        // non-triviality (tracker-based bookkeeping only)
                        let d = default_ctx(rows);
                        let mut differs = 0;
                        if want.pos != d.pos {
                            differs += 1;
                        }
                        if want.pen != d.pen {
                            differs += 1;
                        }
                        if want.autowrap != d.autowrap {
                            differs += 1;
                        }
                        if want.origin == Some(true) {
                            differs += 1;
                        }
                        let before_differs = (rec.pre.col.min(rec.pre.cols - 1), rec.pre.row) != want.pos || rec.m_pre.pen != want.pen || rec.m_pre.autowrap != want.autowrap;
                        if matches!(slots[target], Slot::Default) {
                            tally.class("restore_without_save");
                        }
                        if matches!(slots[1 - target], Slot::Known { .. }) {
                            tally.class("other_screen_has_own_save");
                        }
                        if differs >= 2 && before_differs {
                            tally.nontrivial = true;
                        }
                        None
                    }
                }
            }
            Event::Resized { .. } => {
                for s in slots.iter_mut() {
                    if let Slot::Known { resized, .. } = s {
                        *resized = true;
                    }
                }
                None
            }
            Event::CallEnd { .. } => None,
        }
    });
    match end {
        WalkEnd::Done => Verdict::Pass,
        WalkEnd::Stopped(v) => v,
    }
}

pub fn gen_case(src: &mut Src, _i: usize) -> Case {
    let (cols, rows) = gen::small_size(src);
    let rows = if src.chance(2, 3) { rows.max(3) } else { rows };
    let mut g = G::new(cols, rows).no_ris();
    g.w[gen::CAT_SAVE] = 8;
    g.w[gen::CAT_1048] = 3;
    g.w[gen::CAT_ALT] = 5;
    g.w[gen::CAT_SGR] = 8;
    g.w[gen::CAT_DECMODE] = 8;
    g.w[gen::CAT_STBM] = 4;
    g.w[gen::CAT_CUP] = 8;
    g.w[gen::CAT_FILL] = 3;
    g.w[gen::CAT_DECSTR] = 1;
    g.ris = src.chance(1, 10);
    let mut case = Case::new(cols, rows, None);
    let n = src.range(2, 8);
    case.calls = gen::history(src, &mut g, n, 8, 0, 0, false);
    case
}

/// structured random pairs: rich state at save time, busy interval, matching restore
pub fn gen_pairs(src: &mut Src, _i: usize) -> Case {
    let (cols, rows) = gen::small_size(src);
    let rows = if src.chance(3, 4) { rows.max(3) } else { rows };
    let cols = cols.max(2);
    let mut g = G::new(cols, rows).no_ris();
    let mut case = Case::new(cols, rows, None);
    let start_alt = src.chance(1, 3);
    if start_alt {
        case.calls.push(Call::FeedStr(format!("\x1b[?{}h", src.pick(&[47, 1047]))));
    }
    let state = |src: &mut Src, g: &G| -> String {
        let mut s = String::new();
        if src.chance(1, 3) && g.rows >= 3 {
            let t = src.range(1, g.rows - 1);
            let b = src.range(t + 1, g.rows);
            s.push_str(&format!("\x1b[{};{}r", t, b));
        }
        if src.chance(1, 2) {
            s.push_str(*src.pick(&["\x1b[?6h", "\x1b[?6l"]));
        }
        if src.chance(1, 2) {
            s.push_str(*src.pick(&["\x1b[?7l", "\x1b[?7h"]));
        }
        if src.chance(2, 3) {
            s.push_str(&gen::sgr(src, g, false));
        }
        match src.below(4) {
            0 => s.push_str(&format!("\x1b[{};{}H", src.range(1, g.rows), src.range(1, g.cols))),
            1 => s.push_str(&format!("\x1b[{};999H", src.range(1, g.rows))),
            2 => {
                // wrap-pending (needs auto-wrap on while printing)
                s.push_str(&format!("\x1b[?7h\x1b[{};{}Hx", src.range(1, g.rows), g.cols));
            }
            _ => {}
        }
        s
    };
    case.calls.push(Call::FeedStr(state(src, &g)));
    let pair_1049 = !start_alt && src.chance(1, 4);
    let save = if pair_1049 { "\x1b[?1049h" } else { *src.pick(&["\x1b7", "\x1b[s", "\x1b[?1048h"]) };
    case.calls.push(Call::FeedStr(save.to_string()));
    let n = src.range(1, 5);
    for _ in 0..n {
        match src.below(9) {
            0 | 1 => case.calls.push(Call::FeedStr(state(src, &g))),
            2 => {
                // excursion to the other screen with its own save/restore (not for 1049 pairs,
                // whose restore must come from the alternate screen)
                if !pair_1049 {
                    let (on, off) = if start_alt { ("\x1b[?1047l", "\x1b[?1047h") } else { ("\x1b[?1047h", "\x1b[?1047l") };
                    let inner = format!("{}{}{}{}{}{}", on, state(src, &g), src.pick(&["\x1b7", "\x1b[s", ""]), state(src, &g), src.pick(&["\x1b8", "\x1b[u", ""]), off);
                    case.calls.push(Call::FeedStr(inner));
                } else {
                    case.calls.push(Call::FeedStr(format!("{}{}", state(src, &g), src.pick(&["\x1b7", "\x1b8", ""]))));
                }
            }
            3 => case.calls.push(Call::FeedStr(gen::input(src, &g.clone().no_alt(), 4))),
            4 => {
                if src.chance(1, 3) {
                    let (c, r) = gen::resize_target(src, &g);
                    g.cols = c.max(1);
                    g.rows = r.max(1);
                    case.calls.push(Call::Resize(c, r));
                }
            }
            5 => {
                if src.chance(1, 4) {
                    case.calls.push(Call::FeedStr("\x1b[!p".into()));
                }
            }
            _ => case.calls.push(Call::FeedStr(format!("{}abc\r\n", gen::sgr(src, &g, false)))),
        }
    }
    let restore = if pair_1049 { "\x1b[?1049l" } else { *src.pick(&["\x1b8", "\x1b[u", "\x1b[?1048l"]) };
    case.calls.push(Call::FeedStr(restore.to_string()));
    if src.chance(1, 4) {
        // restoring twice must give the same context again
        case.calls.push(Call::FeedStr(format!("{}{}", state(src, &g), restore)));
    }
    case
}

/// enumerated: 4 save spellings x 4 restore spellings x screens x saved states x interventions
fn enum_pairs() -> Vec<Case> {
    let saves = ["\x1b7", "\x1b[s", "\x1b[?1048h", "\x1b[?1049h"];
    let restores = ["\x1b8", "\x1b[u", "\x1b[?1048l", "\x1b[?1049l"];
    let states = [
        "",
        "\x1b[3;4H\x1b[1;31m",
        "\x1b[?6h\x1b[2;2H\x1b[44m",
        "\x1b[?7l\x1b[4;999H\x1b[7m",
        "\x1b[2;4r\x1b[?6h\x1b[?7l\x1b[3;3H\x1b[38;5;200m",
        "\x1b[4;1Habcdefgh", // wrap-pending at save time on 8 columns
    ];
    let between = [
        "",
        "\x1b[m\x1b[H\x1b[?6l\x1b[?7h\x1b[r",
        "\x1b[?6h\x1b[?7l\x1b[32;1m\x1b[2;3r",
        "\x1b[?1047h\x1b[45m\x1b[2;2H\x1b7\x1b[H\x1b[?1047l",
        "\x1b[?1047h\x1b[45m\x1b[2;2H\x1b[?1047l\x1b[?1047h\x1b8\x1b[?1047l",
        "\x1b[!p\x1b[5;5H\x1b[35m",
        "xyz\n\n\n\n\n\n\x1b[2J",
    ];
    let mut v = vec![];
    for start_alt in [false, true] {
        for (si, s) in saves.iter().enumerate() {
            for (ri, r) in restores.iter().enumerate() {
                // a 1049 save pairs with a 1049 restore (the switch is part of the pair);
                // other spellings must address the same screen
                if (si == 3) != (ri == 3) {
                    continue;
                }
                if si == 3 && start_alt {
                    continue;
                }
                for st in states {
                    for b in between {
                        for rs in [false, true] {
                            let mut c = Case::new(8, 5, None);
                            if start_alt {
                                c.calls.push(Call::FeedStr("\x1b[?1047h".into()));
                            }
                            c.calls.push(Call::FeedStr(st.to_string()));
                            c.calls.push(Call::FeedStr(s.to_string()));
                            c.calls.push(Call::FeedStr(b.to_string()));
                            if rs {
                                c.calls.push(Call::Resize(5, 3));
                            }
                            c.calls.push(Call::FeedStr(r.to_string()));
                            v.push(c);
                        }
                    }
                }
            }
        }
        // restore with nothing saved
        for r in restores {
            for st in states {
                let mut c = Case::new(8, 5, None);
                if start_alt {
                    c.calls.push(Call::FeedStr("\x1b[?1047h".into()));
                }
                c.calls.push(Call::FeedStr(st.to_string()));
                c.calls.push(Call::FeedStr(r.to_string()));
                v.push(c);
            }
        }
    }
    v
}

pub fn run(env: &Env) -> PropRun {
    let j = |c: &Case, t: &mut Tally| judge("", c, t);
    let mut parts = vec![];
    let ep = enum_pairs();
    parts.push(run_part(env, "enum-pairs", ep.len(), true, "8x5: {primary, alternate} x same-screen pairs of 4 save / 4 restore spellings x 6 saved states (incl. wrap-pending, origin, auto-wrap off) x 7 interventions (mode/pen/margin changes, other-screen excursions with own saves, DECSTR, scrolling) x with/without a shrinking resize; plus restore with nothing saved", &|i| ep.get(i).cloned(), &j));
    parts.push(random_part(env, "random-pairs", env.tier.scale(40_000, 30), &gen_pairs, &j));
    parts.push(random_part(env, "random-histories", env.tier.scale(40_000, 30), &gen_case, &j));
    PropRun {
        parts,
        meta: EvidenceMeta {
            rule: "At every save (DECSC, SCOSC, ?1048h, ?1049h) the context in force is read behaviourally on replicas (position from cursor(), pen from a printed cell, auto-wrap from a last-column run, origin from a CUP probe when rows >= 3) and stored per screen; DECSTR resets the active screen's slot, RIS both. After every restore (DECRC, SCORC, ?1048l, ?1049l) the same read-out must equal the stored context of that screen, or power-on defaults if nothing was saved; after a resize in between only 'inside the screen' is required of the position. Non-trivial = the saved context differs from the defaults in >= 2 components and the state right before the restore differs from it.".into(),
            assumptions: vec!["mode lists that combine 1048/1049 with other modes make the slot 'unknown' (not judged) until the next pure save".into()],
            not_compared: vec!["origin mode on screens with fewer than 3 rows (not observable through addressing)".into()],
        },
        extra: serde_json::json!({}),
    }
}
