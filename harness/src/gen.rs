//! Generators. They produce *strings* (and call lists); the reference parser recovers
//! the structure for the oracles, so no separate `Op` type is needed.  Numeric
//! arguments come from class sets aimed at the edges (DESIGN §3.1), never from a
//! uniform range.

use crate::case::{Call, Case};
use crate::src::Src;

#[derive(Clone, Debug)]
pub struct G {
    pub cols: usize,
    pub rows: usize,
    /// allow alternate-screen switches (47/1047/1049)
    pub alt: bool,
    /// allow leaving the alternate screen (…l forms); entering is governed by `alt`
    pub alt_leave: bool,
    /// allow RIS
    pub ris: bool,
    /// allow DECSTR
    pub decstr: bool,
    /// allow inert items (strings, unimplemented sequences)
    pub inert: bool,
    /// allow raw garbage (out-of-domain parameter shapes, truncated sequences, any scalar)
    pub raw: bool,
    /// allow 8-bit C1 forms
    pub c1: bool,
    /// allow 65535-class counts
    pub huge: bool,
    /// allow XTWINOPS resize requests in raw input
    pub xtwinops: bool,
    /// ... including 65535 x 65535 (parser-level checks only: honoured, it would ask for 4G cells)
    pub xtwinops_huge: bool,
    /// category weights (see `CAT_*`)
    pub w: [usize; NCAT],
}

pub const NCAT: usize = 26;
pub const CAT_TEXT: usize = 0;
pub const CAT_C0: usize = 1;
pub const CAT_CUP: usize = 2;
pub const CAT_REL: usize = 3;
pub const CAT_EDIT: usize = 4;
pub const CAT_LINES: usize = 5;
pub const CAT_REP: usize = 6;
pub const CAT_TABMOVE: usize = 7;
pub const CAT_ERASE: usize = 8;
pub const CAT_STBM: usize = 9;
pub const CAT_DECMODE: usize = 10;
pub const CAT_ALT: usize = 11;
pub const CAT_1048: usize = 12;
pub const CAT_ANSIMODE: usize = 13;
pub const CAT_SGR: usize = 14;
pub const CAT_SAVE: usize = 15;
pub const CAT_ESCFE: usize = 16;
pub const CAT_CHARSET: usize = 17;
pub const CAT_TABSET: usize = 18;
pub const CAT_DECALN: usize = 19;
pub const CAT_DECSTR: usize = 20;
pub const CAT_RIS: usize = 21;
pub const CAT_INERT: usize = 22;
pub const CAT_RAW: usize = 23;
pub const CAT_MULTIMODE: usize = 24;
pub const CAT_FILL: usize = 25;

impl G {
    pub fn new(cols: usize, rows: usize) -> G {
        G {
            cols,
            rows,
            alt: true,
            alt_leave: true,
            ris: true,
            decstr: true,
            inert: true,
            raw: false,
            c1: true,
            huge: true,
            xtwinops: false,
            xtwinops_huge: false,
            w: [
                10, // text
                6,  // c0
                4,  // cup
                5,  // rel
                3,  // edit
                3,  // lines
                2,  // rep
                2,  // tabmove
                3,  // erase
                3,  // stbm
                4,  // decmode
                3,  // alt
                1,  // 1048
                2,  // ansimode
                4,  // sgr
                2,  // save
                3,  // escfe
                2,  // charset
                2,  // tabset
                1,  // decaln
                1,  // decstr
                1,  // ris
                2,  // inert
                0,  // raw
                1,  // multimode
                3,  // fill
            ],
        }
    }
    pub fn no_alt(mut self) -> G {
        self.alt = false;
        self
    }
    pub fn no_ris(mut self) -> G {
        self.ris = false;
        self
    }
    pub fn with_raw(mut self, w: usize) -> G {
        self.raw = true;
        self.w[CAT_RAW] = w;
        self
    }
    pub fn weight(mut self, cat: usize, w: usize) -> G {
        self.w[cat] = w;
        self
    }
}

/// (zero-width code points - combining acute, ZWSP, ZWJ, VS16 - occupy a cell like any other
/// printable; they are here so that code which starts to look at display widths is seen)
pub const TEXT_CHARS: [char; 26] = ['a', 'b', 'c', 'x', 'y', 'z', ' ', 'q', '~', '`', 'j', '\u{7f}', 'é', '世', '─', '\u{a0}', '😀', 'E', '\u{301}', '\u{200b}', '\u{200d}', '\u{fe0f}', 'Š', '你', '|', '\u{2666}'];

pub fn text_char(src: &mut Src) -> char {
    *src.pick(&TEXT_CHARS)
}

pub fn small_size(src: &mut Src) -> (usize, usize) {
    let cols = match src.below(20) {
        0 => 1,
        1 => 2,
        2 => 3,
        3 => 4,
        4 => 5,
        5 => 6,
        6 => 7,
        7 => 8,
        8 => 9,
        9 => 10,
        10 => 12,
        11 => 16,
        12 => 17,
        13 => 24,
        14 => 1,
        15 => 8,
        _ => src.range(2, 12),
    };
    let rows = match src.below(10) {
        0 => 1,
        1 => 2,
        2 => 3,
        _ => src.range(1, 7),
    };
    (cols, rows)
}

pub fn any_size(src: &mut Src) -> (usize, usize) {
    match src.below(12) {
        0 => (80, 24),
        1 => (*src.pick(&[40usize, 100, 132, 300]), *src.pick(&[10usize, 30, 50])),
        2 => (1, 1),
        3 => (1, src.range(1, 9)),
        4 => (src.range(1, 20), 1),
        _ => small_size(src),
    }
}

pub fn limit(src: &mut Src) -> Option<usize> {
    *src.pick(&[None, None, Some(0), Some(1), Some(3), Some(9), Some(10), Some(11), Some(25), Some(100)])
}

/// numeric parameter from the class set {omitted, 0, 1, 2, small, edge-1, edge, edge+1, 2*edge, 65535}
pub fn num(src: &mut Src, g: &G, edge: usize) -> String {
    let v: Option<usize> = match src.below(12) {
        0 => None,
        1 => Some(0),
        2 | 3 => Some(1),
        4 => Some(2),
        5 => Some(src.range(1, 4)),
        6 => Some(edge.saturating_sub(1)),
        7 => Some(edge),
        8 => Some(edge + 1),
        9 => Some(edge * 2),
        10 => Some(src.range(0, edge + 2)),
        _ => {
            if g.huge {
                Some(*src.pick(&[65535usize, 65535, 32767, 1000]))
            } else {
                Some(edge + 3)
            }
        }
    };
    match v {
        None => String::new(),
        Some(v) => {
            if src.chance(1, 16) {
                format!("0{}", v)
            } else {
                v.to_string()
            }
        }
    }
}

pub fn csi(src: &mut Src, g: &G) -> &'static str {
    if g.c1 && src.chance(1, 5) {
        "\u{9b}"
    } else {
        "\x1b["
    }
}

fn color_item(src: &mut Src, base: usize) -> String {
    // base = 38 or 48
    let n = match src.below(6) {
        0 => 0,
        1 => 255,
        2 => 16,
        3 => 7,
        _ => src.below(256),
    };
    let comp = |src: &mut Src| *src.pick(&[0usize, 1, 127, 128, 254, 255]);
    let (r, gg, b) = (comp(src), comp(src), comp(src));
    match src.below(5) {
        0 => format!("{};5;{}", base, n),
        1 => format!("{}:5:{}", base, n),
        2 => format!("{};2;{};{};{}", base, r, gg, b),
        3 => format!("{}:2:{}:{}:{}", base, r, gg, b),
        _ => format!("{}:2::{}:{}:{}", base, r, gg, b),
    }
}

pub const SGR_SIMPLE: [usize; 32] = [0, 1, 2, 3, 4, 5, 7, 9, 21, 22, 23, 24, 25, 27, 29, 30, 31, 37, 39, 40, 44, 47, 49, 90, 97, 100, 107, 33, 42, 95, 103, 36];
pub const SGR_UNKNOWN: [usize; 16] = [6, 8, 10, 11, 20, 26, 28, 50, 51, 89, 98, 99, 108, 200, 1000, 65535];

/// is `code` (a single-part SGR parameter) outside the implemented set?
pub fn sgr_is_unknown(code: usize) -> bool {
    !matches!(code, 0..=5 | 7 | 9 | 21..=25 | 27 | 29 | 30..=49 | 90..=97 | 100..=107)
}

/// any unknown SGR code: every unimplemented value below 120 is equally likely, plus a few
/// big ones (index-based: a used-up byte source returns 0 forever, so no rejection loops)
pub fn sgr_unknown(src: &mut Src) -> usize {
    if src.chance(1, 8) {
        return *src.pick(&[200usize, 255, 256, 1000, 65535]);
    }
    let pool: Vec<usize> = (0..120).filter(|c| sgr_is_unknown(*c)).collect();
    *src.pick(&pool)
}

/// one well-formed SGR control with `n` items (at most 32 parameters in total)
pub fn sgr(src: &mut Src, g: &G, unknown: bool) -> String {
    let n = match src.below(8) {
        0 => 0,
        1 | 2 | 3 => 1,
        4 | 5 => 2,
        6 => 3,
        _ => src.range(1, 8),
    };
    let mut items: Vec<String> = vec![];
    let mut params = 0usize;
    for _ in 0..n {
        let (it, cost) = match src.below(10) {
            0 | 1 => {
                let base = *src.pick(&[38usize, 48]);
                let s = color_item(src, base);
                let cost = s.split(';').count();
                (s, cost)
            }
            2 if unknown => (sgr_unknown(src).to_string(), 1),
            3 => (if src.chance(1, 2) { String::new() } else { "0".into() }, 1),
            _ => (src.pick(&SGR_SIMPLE).to_string(), 1),
        };
        if params + cost > 32 {
            break;
        }
        params += cost;
        items.push(it);
    }
    format!("{}{}m", csi(src, g), items.join(";"))
}

pub fn osc_payload(src: &mut Src, bel_ok: bool) -> String {
    let n = match src.below(4) {
        0 => 0,
        1 => src.range(1, 4),
        2 => src.range(1, 20),
        _ => src.range(1, 60),
    };
    let mut s = String::new();
    for _ in 0..n {
        let c = match src.below(12) {
            0 => '\n',
            1 => '\x08',
            2 => '[',
            3 => *src.pick(&['0', '1', '5', ';', '?']),
            4 => *src.pick(&['H', 'm', 'J', 'c', 'M']),
            5 => *src.pick(&['é', '世', '\u{a0}', '😀']),
            6 => {
                // C0 other than CAN, SUB, ESC (and BEL unless allowed)
                let c = *src.pick(&['\x00', '\x01', '\x05', '\x07', '\r', '\t', '\x0e', '\x0f', '\x1c', '\x1f', '\x0b', '\x0c']);
                if c == '\x07' && !bel_ok {
                    '\r'
                } else {
                    c
                }
            }
            7 => '\u{7f}',
            _ => (0x20 + src.below(0x5f) as u8) as char,
        };
        s.push(c);
    }
    s
}

/// one inert item in the sense of C20 (in-domain for the reference parser: at most one
/// collected character)
pub fn inert(src: &mut Src, g: &G) -> String {
    match src.below(10) {
        0 | 1 => {
            // OSC
            let intro = if g.c1 && src.chance(1, 3) { "\u{9d}" } else { "\x1b]" };
            let term = *src.pick(&["\x07", "\x1b\\", "\u{9c}"]);
            let term = if !g.c1 && term == "\u{9c}" { "\x07" } else { term };
            format!("{}{}{}", intro, osc_payload(src, false), term)
        }
        2 => {
            // DCS
            let intro = if g.c1 && src.chance(1, 3) { "\u{90}" } else { "\x1bP" };
            let pre = *src.pick(&["", "q", "1;2q", "$q", "+q", "?1$r", "1:2x", ">|", "0;1|", " q"]);
            // now and then a header with more parameters than the parser stores
            let many = if src.chance(1, 8) {
                let n = *src.pick(&[31usize, 32, 33, 40]);
                let mut h = String::from(*src.pick(&["", "?", ">"]));
                for i in 0..n {
                    if src.chance(1, 2) {
                        h.push_str(&(i % 10).to_string());
                    }
                    h.push(';');
                }
                h
            } else {
                String::new()
            };
            let term = if g.c1 && src.chance(1, 2) { "\u{9c}" } else { "\x1b\\" };
            format!("{}{}{}{}{}", intro, many, pre, osc_payload(src, true), term)
        }
        3 => {
            // SOS / PM / APC
            let intro = if g.c1 && src.chance(1, 3) { *src.pick(&["\u{98}", "\u{9e}", "\u{9f}"]) } else { *src.pick(&["\x1bX", "\x1b^", "\x1b_"]) };
            let term = if g.c1 && src.chance(1, 2) { "\u{9c}" } else { "\x1b\\" };
            format!("{}{}{}", intro, osc_payload(src, true), term)
        }
        4 => {
            // CSI with unimplemented final
            let fin = *src.pick(&['N', 'O', 'Q', 'R', 'U', 'V', 'Y', '[', '\\', ']', '^', '_', 'c', 'i', 'j', 'k', 'n', 'o', 'p', 'q', 'v', 'w', 'x', 'y', 'z', '{', '|', '}', '~']);
            format!("{}{}{}", csi(src, g), *src.pick(&["", "0", "1", "5;6", "2;3;4", "1:2:3:4:5:6:7", "4::::::", "70000", "1;2;3;4;5;6;7;8;9;10;11;12;13;14;15;16;17;18;19;20;21;22;23;24;25;26;27;28;29;30;31;32;33"]), fin)
        }
        5 => {
            // private markers
            let mk = *src.pick(&['<', '=', '>', '?']);
            let fin = if mk == '?' {
                *src.pick(&['m', 'J', 'K', 'r', 'n', 's', 'u', 'c', 'H', 'A', 'S', 'p', 'W', 'i', 'q'])
            } else {
                (0x40 + src.below(0x3f) as u8) as char
            };
            format!("{}{}{}{}", csi(src, g), mk, *src.pick(&["", "1", "4", "6", "7", "25", "1049", "0;1", "4;20"]), fin)
        }
        6 => {
            // intermediates (never the DECSTR spelling)
            let im = (0x20 + src.below(0x10) as u8) as char;
            let mut fin = if src.chance(1, 3) { *src.pick(&['h', 'l', 'm', 'H', 'J', 'r', 'u', 's', 'A', 'L']) } else { (0x40 + src.below(0x3f) as u8) as char };
            if im == '!' && fin == 'p' {
                fin = 'q';
            }
            // optionally behind a private marker (also `?` with mode numbers): the
            // intermediate makes the whole sequence unimplemented
            let mk = if src.chance(1, 2) { *src.pick(&["<", "=", ">", "?", "?"]) } else { "" };
            format!("{}{}{}{}{}", csi(src, g), mk, *src.pick(&["", "1", "2;2", "6", "7", "25", "1049", "1047", "4;20"]), im, fin)
        }
        7 => {
            // CSI that enters CsiIgnore
            let body = *src.pick(&[":1", "1<", "1 2", "?1?", "1;2=3", ":"]);
            let fin = (0x40 + src.below(0x3f) as u8) as char;
            format!("{}{}{}", csi(src, g), body, fin)
        }
        8 => {
            // unimplemented ESC sequences
            match src.below(3) {
                0 => {
                    let fin = *src.pick(&['0', '1', '2', '6', '9', ':', '<', '=', '>', '?', 'a', 'b', 'd', 'k', 'n', 'o', 'z', '|', '}', '~', '`']);
                    format!("\x1b{}", fin)
                }
                1 => {
                    let im = *src.pick(&[' ', '!', '"', '$', '%', '&', '\'', '*', '+', ',', '-', '.', '/', '#']);
                    let mut fin = (0x30 + src.below(0x4f) as u8) as char;
                    if im == '#' && fin == '8' {
                        fin = '3';
                    }
                    format!("\x1b{}{}", im, fin)
                }
                _ => {
                    // ESC Fe without function
                    let fin = *src.pick(&['@', 'A', 'B', 'C', 'F', 'G', 'I', 'J', 'K', 'L', 'N', 'O', 'Q', 'R', 'S', 'T', 'U', 'V', 'W', 'Y', 'Z', '\\']);
                    format!("\x1b{}", fin)
                }
            }
        }
        _ => {
            // unassigned C0 / C1
            if g.c1 && src.chance(1, 2) {
                let c = *src.pick(&[0x80u32, 0x81, 0x82, 0x83, 0x86, 0x87, 0x89, 0x8a, 0x8b, 0x8c, 0x8e, 0x8f, 0x91, 0x92, 0x93, 0x94, 0x95, 0x96, 0x97, 0x99, 0x9a, 0x9c]);
                char::from_u32(c).unwrap().to_string()
            } else {
                let c = *src.pick(&[0u32, 1, 2, 3, 4, 5, 6, 7, 0x10, 0x11, 0x12, 0x13, 0x14, 0x15, 0x16, 0x17, 0x19, 0x1c, 0x1d, 0x1e, 0x1f]);
                char::from_u32(c).unwrap().to_string()
            }
        }
    }
}

/// raw garbage aimed at the parser's edges; NOT in-domain for the reference functions
pub fn raw(src: &mut Src, g: &G) -> String {
    let mut s = String::new();
    match src.below(12) {
        0 => {
            // any scalar values
            for _ in 0..src.range(1, 8) {
                let c = match src.below(8) {
                    0 => src.below(0x20) as u32,
                    1 => 0x7f + src.below(0x22) as u32,
                    2 => 0x80 + src.below(0x20) as u32,
                    3 => *src.pick(&[0xa0u32, 0xad, 0xd7ff, 0xe000, 0xfffd, 0xffff, 0x10000, 0x10ffff]),
                    4 => 0x20 + src.below(0x5f) as u32,
                    5 => src.below(0x11_0000) as u32,
                    _ => 0x30 + src.below(0x50) as u32,
                };
                if let Some(ch) = char::from_u32(c) {
                    s.push(ch);
                }
            }
        }
        1 => {
            // huge parameter values
            let digits = src.range(5, 12);
            s.push_str(csi(src, g));
            if src.chance(1, 2) {
                // aliases modulo 2^16 (and 2^32) of values that mean something
                let v = *src.pick(&[0u64, 1, 2, 3, 4, 5, 6, 7, 20, 25, 38, 47, 48, 1047, 1048, 1049]);
                let k = *src.pick(&[65536u64, 65536, 131072, 4294967296]);
                s.push_str(&(v + k).to_string());
            } else {
                for _ in 0..digits {
                    s.push((b'0' + src.below(10) as u8) as char);
                }
            }
            if src.chance(1, 2) {
                s.push(';');
                for _ in 0..src.range(1, 12) {
                    s.push((b'0' + src.below(10) as u8) as char);
                }
            }
            s.push(*src.pick(&['b', '@', 'P', 'X', 'L', 'M', 'S', 'T', 'A', 'B', 'C', 'D', 'H', 'G', 'd', 'I', 'Z', 'r', 'm', 'J', 'h', 'E', 'F', 'e', 'a']));
        }
        2 => {
            // many parameters
            let n = *src.pick(&[31usize, 32, 33, 34, 40, 80]);
            s.push_str(csi(src, g));
            if src.chance(1, 3) {
                s.push('?');
            }
            for i in 0..n {
                if i > 0 {
                    s.push(';');
                }
                if src.chance(2, 3) {
                    s.push_str(&src.pick(&[0usize, 1, 4, 6, 7, 20, 25, 38, 48, 5, 2, 1049, 47, 255, 65535]).to_string());
                }
            }
            let f = *src.pick(&['m', 'h', 'l', 'H', 'r', 'A', 'b', 't']);
            // a first parameter of 8 with final t would be an XTWINOPS resize request (see below)
            s.push(if f == 't' && !g.xtwinops { 'n' } else { f });
        }
        3 => {
            // many sub-parameters
            let n = src.range(1, 12);
            s.push_str(csi(src, g));
            s.push_str(&src.pick(&[38usize, 48, 4, 1, 0]).to_string());
            for _ in 0..n {
                s.push(':');
                if src.chance(3, 4) {
                    s.push_str(&src.pick(&[0usize, 1, 2, 5, 128, 255, 256, 65535, 70000]).to_string());
                }
            }
            if src.chance(1, 3) {
                s.push_str(";1");
            }
            s.push(*src.pick(&['m', 'H', 'A', 'r', 'h']));
        }
        4 => {
            // truncated sequence
            let full = frag_structured(src, g);
            let n = full.chars().count();
            let k = src.below(n.max(1));
            s = full.chars().take(k).collect();
        }
        5 => {
            // 65535-class counts
            s.push_str(csi(src, g));
            s.push_str("65535");
            s.push(*src.pick(&['b', '@', 'P', 'X', 'L', 'M', 'S', 'T', 'A', 'B', 'C', 'D', 'I', 'Z', 'E', 'F', 'e', 'a', 'G', 'd']));
        }
        6 => {
            // aborted / nested strings
            s.push_str(*src.pick(&["\x1b]", "\x1bP", "\x1b_", "\u{90}", "\u{9d}", "\u{98}"]));
            s.push_str(&osc_payload(src, true));
            s.push_str(*src.pick(&["\x18", "\x1a", "\x1b", "\x1b[", "\x1b]", "\u{9b}", "\u{84}", "", "\x1bc"]));
        }
        7 => {
            // malformed SGR colours
            s.push_str(csi(src, g));
            s.push_str(*src.pick(&["38", "38;2", "38;2;1;2", "38;5", "48;9;1", "38;2;300;400;500", "38:2:1:2", "38:5", "48:2:1:2:3:4:5:6:7", "38;5;999", "38:5:256", "1;38", "38;2;;;", "58;5;1"]));
            s.push('m');
        }
        8 => {
            // multiple intermediates / markers
            s.push_str(*src.pick(&["\x1b[?!p", "\x1b[#!p", "\x1b#(0", "\x1b()0", "\x1b[?>1h", "\x1b[>?1h", "\x1b[1 !p", "\x1b[!!p", "\x1b(#8", "\x1b[?1;!p", "\x1b[ @", "\x1b[!@"]));
        }
        9 => {
            // XTWINOPS & ED 3 & unknown selectors
            // XTWINOPS resize requests (parsed, ignored by the terminal today) only where the
            // judge does not track the size itself (C01, C03): if the request were honoured,
            // size() would legitimately change without a resize() call
            if g.xtwinops && src.chance(1, 2) {
                let big = if g.xtwinops_huge { "\x1b[8;65535;65535t" } else { "\x1b[8;120;300t" };
                s.push_str(*src.pick(&["\x1b[8;5;10t", "\x1b[8;0;0t", big, "\x1b[8t", "\x1b[8;1;1t"]));
            } else {
                s.push_str(*src.pick(&["\x1b[3J", "\x1b[4J", "\x1b[3K", "\x1b[1g", "\x1b[1W", "\x1b[4g", "\x1b[9t", "\x1b[7;1;1t"]));
            }
        }
        10 => {
            // DEL and C0 inside sequences
            s.push_str(*src.pick(&["\x1b[1\u{7f}2H", "\x1b[\n5A", "\x1b\x08[C", "\x1b[1;\r2H", "\x1b(\n0", "\x1b[?\t25l", "\x1b[1\x0b;\x0c2r"]));
        }
        _ => {
            // colon outside SGR
            s.push_str(*src.pick(&["\x1b[1:2H", "\x1b[:5A", "\x1b[2:3;4r", "\x1b[?6:1h", "\x1b[4:3m", "\x1b[1:2:3:4:5:6:7:8m"]));
        }
    }
    s
}

fn dec_mode_num(src: &mut Src) -> usize {
    *src.pick(&[1usize, 6, 7, 25, 6, 7])
}

/// one structured (in-domain) fragment
pub fn frag_structured(src: &mut Src, g: &G) -> String {
    let mut w = g.w;
    if !g.alt {
        w[CAT_ALT] = 0;
    }
    if !g.ris {
        w[CAT_RIS] = 0;
    }
    if !g.decstr {
        w[CAT_DECSTR] = 0;
    }
    if !g.inert {
        w[CAT_INERT] = 0;
    }
    w[CAT_RAW] = 0;
    let c = src_weighted(src, &w);
    frag_cat(src, g, c)
}

fn src_weighted(src: &mut Src, w: &[usize; NCAT]) -> usize {
    src.weighted(&w[..])
}

/// one fragment (structured, or raw when enabled)
pub fn frag(src: &mut Src, g: &G) -> String {
    let mut w = g.w;
    if !g.alt {
        w[CAT_ALT] = 0;
    }
    if !g.ris {
        w[CAT_RIS] = 0;
    }
    if !g.decstr {
        w[CAT_DECSTR] = 0;
    }
    if !g.inert {
        w[CAT_INERT] = 0;
    }
    if !g.raw {
        w[CAT_RAW] = 0;
    }
    let c = src_weighted(src, &w);
    frag_cat(src, g, c)
}

pub fn frag_cat(src: &mut Src, g: &G, cat: usize) -> String {
    let (cols, rows) = (g.cols, g.rows);
    match cat {
        CAT_TEXT => {
            let n = match src.below(6) {
                0 => 1,
                1 => 2,
                2 => src.range(1, cols + 1),
                3 => cols,
                4 => src.range(1, cols * 2 + 1),
                _ => src.range(1, 4),
            };
            if src.chance(1, 3) {
                (0..n).map(|_| *src.pick(&['A', 'B', 'C', 'D'])).collect()
            } else {
                (0..n).map(|_| text_char(src)).collect()
            }
        }
        CAT_C0 => (*src.pick(&["\r\n", "\n", "\r", "\x08", "\t", "\x0b", "\x0c", "\n", "\r\n", "\n\n\n"])).to_string(),
        CAT_CUP => {
            let f = *src.pick(&['H', 'H', 'f']);
            let r = num(src, g, rows);
            let c = num(src, g, cols);
            if c.is_empty() && src.chance(1, 2) {
                format!("{}{}{}", csi(src, g), r, f)
            } else {
                format!("{}{};{}{}", csi(src, g), r, c, f)
            }
        }
        CAT_REL => {
            let f = *src.pick(&['A', 'B', 'C', 'D', 'E', 'F', 'G', 'd', 'e', 'a', '`']);
            let edge = if matches!(f, 'A' | 'B' | 'E' | 'F' | 'd' | 'e') { rows } else { cols };
            format!("{}{}{}", csi(src, g), num(src, g, edge), f)
        }
        CAT_EDIT => {
            let f = *src.pick(&['@', 'P', 'X']);
            format!("{}{}{}", csi(src, g), num(src, g, cols), f)
        }
        CAT_LINES => {
            let f = *src.pick(&['L', 'M', 'S', 'T']);
            format!("{}{}{}", csi(src, g), num(src, g, rows), f)
        }
        CAT_REP => format!("{}{}b", csi(src, g), num(src, g, cols)),
        CAT_TABMOVE => {
            if src.chance(1, 3) {
                "\t".to_string()
            } else {
                let f = *src.pick(&['I', 'Z']);
                format!("{}{}{}", csi(src, g), num(src, g, (cols / 8).max(1)), f)
            }
        }
        CAT_ERASE => {
            let f = *src.pick(&['J', 'K']);
            format!("{}{}{}", csi(src, g), *src.pick(&["", "0", "1", "2"]), f)
        }
        CAT_STBM => {
            let t = num(src, g, rows);
            let b = num(src, g, rows);
            // bias towards valid pairs
            if rows >= 2 && src.chance(1, 2) {
                let top = src.range(1, rows - 1);
                let bot = src.range(top + 1, rows);
                format!("{}{};{}r", csi(src, g), top, bot)
            } else if b.is_empty() && src.chance(1, 2) {
                format!("{}{}r", csi(src, g), t)
            } else {
                format!("{}{};{}r", csi(src, g), t, b)
            }
        }
        CAT_DECMODE => format!("{}?{}{}", csi(src, g), dec_mode_num(src), *src.pick(&['h', 'l'])),
        CAT_ALT => {
            let m = *src.pick(&[47usize, 1047, 1049, 1049]);
            let hl = if g.alt_leave { *src.pick(&['h', 'l']) } else { 'h' };
            format!("{}?{}{}", csi(src, g), m, hl)
        }
        CAT_1048 => format!("{}?1048{}", csi(src, g), *src.pick(&['h', 'l'])),
        CAT_ANSIMODE => format!("{}{}{}", csi(src, g), *src.pick(&["4", "20", "4;20", "20;4", "4"]), *src.pick(&['h', 'l'])),
        CAT_SGR => sgr(src, g, true),
        CAT_SAVE => {
            let s = *src.pick(&["\x1b7", "\x1b8", "s", "u"]);
            if s.len() == 1 {
                format!("{}{}", csi(src, g), s)
            } else {
                s.to_string()
            }
        }
        CAT_ESCFE => {
            let k = src.below(4);
            let seven = ["\x1bD", "\x1bE", "\x1bM", "\x1bH"][k];
            let eight = ["\u{84}", "\u{85}", "\u{8d}", "\u{88}"][k];
            if g.c1 && src.chance(1, 3) {
                eight.to_string()
            } else {
                seven.to_string()
            }
        }
        CAT_CHARSET => (*src.pick(&["\x1b(0", "\x1b(B", "\x1b)0", "\x1b)B", "\x0e", "\x0f", "\x1b(A", "\x1b)A"])).to_string(),
        CAT_TABSET => {
            let s = *src.pick(&["g", "0g", "3g", "W", "0W", "2W", "5W"]);
            format!("{}{}", csi(src, g), s)
        }
        CAT_DECALN => "\x1b#8".to_string(),
        // (DECSTR takes no parameters; written with some it is still DECSTR and must leave
        // none of them behind for the next sequence)
        CAT_DECSTR => format!("{}{}!p", csi(src, g), *src.pick(&["", "", "", "0", "2;7", "0;6;9", ";3"])),
        CAT_RIS => "\x1bc".to_string(),
        CAT_INERT => inert(src, g),
        CAT_RAW => raw(src, g),
        CAT_MULTIMODE => {
            let n = src.range(2, 4);
            let mut ms: Vec<String> = vec![];
            for _ in 0..n {
                let mut pool: Vec<usize> = vec![1, 6, 7, 25, 1048, 2004, 12];
                if g.alt {
                    pool.extend([47, 1047, 1049]);
                }
                ms.push(src.pick(&pool).to_string());
            }
            let hl = if g.alt && !g.alt_leave { 'h' } else { *src.pick(&['h', 'l']) };
            // with alt_leave disabled, 'l' on alt modes is not allowed
            format!("{}?{}{}", csi(src, g), ms.join(";"), hl)
        }
        _ => {
            // CAT_FILL: print up to exactly the end of a row (k*cols characters), to land
            // in the wrap-pending position
            let k = src.range(1, 2);
            let mut s = String::from("\r");
            for _ in 0..k * cols {
                s.push(*src.pick(&['m', 'n', 'o', ' ', 'p']));
            }
            if src.chance(1, 2) {
                s.push(*src.pick(&['!', 'q']));
            }
            s
        }
    }
}

pub fn input(src: &mut Src, g: &G, max_frags: usize) -> String {
    let n = src.range(1, max_frags.max(1));
    (0..n).map(|_| frag(src, g)).collect()
}

/// A history of calls: feeds (one call per 1..k fragments; sometimes per-char `feed`),
/// resizes, optionally read-only calls. Updates `g.cols/rows` on resize.
pub fn history(src: &mut Src, g: &mut G, n_calls: usize, resize_pct: usize, feed_char_pct: usize, readonly_pct: usize, big_sizes: bool) -> Vec<Call> {
    let mut calls = vec![];
    for _ in 0..n_calls {
        let x = src.below(100);
        if x < resize_pct {
            let (c, r) = if big_sizes { any_size(src) } else { resize_target(src, g) };
            g.cols = c;
            g.rows = r;
            calls.push(Call::Resize(c, r));
        } else if x < resize_pct + readonly_pct {
            calls.push(src.pick(&[Call::Dump, Call::Text, Call::Query]).clone());
        } else {
            let s = input(src, g, 8);
            if src.below(100) < feed_char_pct {
                calls.push(Call::Feed(s));
            } else {
                calls.push(Call::FeedStr(s));
            }
        }
    }
    calls
}

pub fn resize_target(src: &mut Src, g: &G) -> (usize, usize) {
    match src.below(8) {
        0 => (g.cols, src.range(1, 8)),
        1 => (src.range(1, 14), g.rows),
        2 => (g.cols + 1, g.rows),
        3 => (g.cols.saturating_sub(1).max(1), g.rows),
        4 => (*src.pick(&[1usize, 2, 8, 16, 24]), src.range(1, 7)),
        _ => (src.range(1, 14), src.range(1, 8)),
    }
}

/// default case shape for the model-based checks: small screen, structured history
pub fn structured_case(src: &mut Src, alt: bool, ris: bool, resize_pct: usize, max_calls: usize) -> Case {
    let (cols, rows) = if src.chance(1, 25) { (80, 24) } else { small_size(src) };
    let mut g = G::new(cols, rows);
    g.alt = alt;
    g.ris = ris;
    let mut case = Case::new(cols, rows, None);
    let n = src.range(1, max_calls);
    case.calls = history(src, &mut g, n, resize_pct, 0, 0, false);
    case
}

/// structured history followed by a burst drawn from the given category weights
pub fn burst_case(src: &mut Src, alt: bool, ris: bool, resize_pct: usize, max_calls: usize, burst: &[(usize, usize)], burst_frags: usize) -> Case {
    let mut case = structured_case(src, alt, ris, resize_pct, max_calls);
    let mut sz = (case.cols, case.rows);
    for c in &case.calls {
        if let Call::Resize(c, r) = c {
            sz = (*c, *r);
        }
    }
    let mut g = G::new(sz.0, sz.1);
    g.alt = alt;
    g.ris = ris;
    g.w = [0; NCAT];
    for (cat, w) in burst {
        g.w[*cat] = *w;
    }
    let s = input(src, &g, burst_frags);
    case.calls.push(Call::FeedStr(s));
    case
}

/// screen filler: `continuous` prints one long run (every row but the last ends up
/// soft-wrapped), otherwise each row is addressed separately (no marks)
pub fn fill_screen(cols: usize, rows: usize, continuous: bool) -> String {
    let mut s = String::new();
    let ch = |r: usize, c: usize| (b'A' + ((r * 7 + c) % 26) as u8) as char;
    if continuous {
        s.push_str("\x1b[1;1H");
        for r in 0..rows {
            for c in 0..cols {
                s.push(ch(r, c));
            }
        }
    } else {
        for r in 0..rows {
            s.push_str(&format!("\x1b[{};1H", r + 1));
            for c in 0..cols {
                s.push(ch(r, c));
            }
        }
    }
    s
}

/// screen filler with three modes: 0 = continuous run (rows soft-wrapped), 1 = each row
/// addressed separately and filled completely, 2 = sparse: even rows carry text in their
/// left half only, odd rows stay blank (default cells) — content-dependent shortcuts
/// ("this row / the rest of this row is blank") only show on such screens
pub fn fill_screen_mode(cols: usize, rows: usize, mode: usize) -> String {
    match mode {
        0 => fill_screen(cols, rows, true),
        1 => fill_screen(cols, rows, false),
        _ => {
            let mut s = String::new();
            let ch = |r: usize, c: usize| (b'a' + ((r * 5 + c) % 26) as u8) as char;
            for r in (0..rows).step_by(2) {
                s.push_str(&format!("\x1b[{};1H", r + 1));
                for c in 0..(cols / 2).max(1).min(cols) {
                    s.push(ch(r, c));
                }
            }
            s
        }
    }
}

/// sizes beyond every narrow-integer boundary (255/256 columns or rows), plus typical large terminals
pub fn large_size(src: &mut Src) -> (usize, usize) {
    match src.below(8) {
        0 => (132, 50),
        1 => (300, 60),
        2 => (256, 4),
        3 => (257, 3),
        4 => (1000, 2),
        5 => (3, 300),
        6 => (80, 257),
        _ => (src.range(200, 400), src.range(2, 40)),
    }
}

/// structured history on a large screen followed by a burst from the given categories;
/// numeric arguments use the same edge classes, so columns/rows/counts beyond 255 occur
pub fn large_case(src: &mut Src, alt: bool, burst: &[(usize, usize)], burst_frags: usize) -> Case {
    let (cols, rows) = large_size(src);
    let mut g = G::new(cols, rows);
    g.alt = alt;
    g.ris = false;
    let mut case = Case::new(cols, rows, None);
    let n = src.range(1, 4);
    case.calls = history(src, &mut g, n, 10, 0, 0, false);
    // history() resizes towards small sizes; keep the burst aware of the current size
    let mut gb = G::new(g.cols, g.rows);
    gb.alt = alt;
    gb.ris = false;
    gb.w = [0; NCAT];
    for (cat, w) in burst {
        gb.w[*cat] = *w;
    }
    // long runs of text so that wide rows actually fill and wrap
    let mut s = String::new();
    if src.chance(1, 2) {
        let n = src.range(1, 3) * gb.cols + src.range(0, 3);
        for k in 0..n {
            s.push((b'a' + (k % 26) as u8) as char);
        }
    }
    s.push_str(&input(src, &gb, burst_frags));
    case.calls.push(Call::FeedStr(s));
    case
}
