#!/usr/bin/env python3
"""After tools/verify_seed.sh: merge the sub-agent's meta.json with what we confirmed and
which checks caught the change; writes /verif/seeded/<name>/meta.json and prints a table."""
import json, os, re, sys

root = "/verif/seeded"
rows = []
for name in sorted(os.listdir(root)):
    d = os.path.join(root, name)
    log = os.path.join(d, "verify.log")
    if not os.path.isdir(d) or not os.path.exists(log):
        continue
    text = open(log).read()
    m = re.search(r"demo_clean_exit=(\d+) demo_patched_exit=(\d+) suite_exit=(\d+)", text)
    caught = re.search(r"caught_by:(.*)", text)
    caught_list = caught.group(1).split() if caught else []
    meta_path = os.path.join(d, "meta.json")
    try:
        meta = json.load(open(meta_path))
    except Exception:
        meta = {}
    if "agent" not in meta:
        meta = {"agent": meta}
    prop = meta["agent"].get("property", name[:3])
    first = {}
    for line in text.splitlines():
        mm = re.match(r"-- (C\d+) CAUGHT: (.*)", line)
        if mm:
            first[mm.group(1)] = mm.group(2)[:400]
    meta.update({
        "property": prop,
        "breaks": meta["agent"].get("summary", ""),
        "needs_to_manifest": meta["agent"].get("needs", ""),
        "confirmed_by_us": {
            "scratch_worktree": "fresh `git worktree add --detach /tmp/seedv/<name> HEAD` of /repo, removed afterwards (tools/verify_seed.sh)",
            "demo_on_unmodified_tree": "pass" if m and m.group(1) == "0" else "FAIL",
            "demo_with_change": "fails" if m and m.group(2) != "0" else "DOES NOT FAIL",
            "avt_suite_with_change": "passes (cargo test --workspace --no-fail-fast --offline)" if m and m.group(3) == "0" else "FAILS",
        },
        "ran": [
            "tools/verify_seed.sh %s <agent dir>  (demo without/with patch, avt suite with patch)" % name,
            "git -C /repo apply seeded/%s/patch.diff; ./check <%s> quick (evidence redirected); git -C /repo checkout -- ." % (name, (re.search(r"checks_run: (.*)", text).group(1) if re.search(r"checks_run: (.*)", text) else "C01..C20")),
        ],
        "caught_by_quick_checks": caught_list,
        "first_counterexamples": first,
    })
    json.dump(meta, open(meta_path, "w"), indent=1)
    rows.append((name, prop, "ok" if m and m.group(1) == "0" and m.group(2) != "0" and m.group(3) == "0" else "NOT-CONFIRMED", " ".join(caught_list), prop in caught_list))
for r in rows:
    print("%-10s prop=%s %-14s caught_by=[%s] own_property_caught=%s" % r)
