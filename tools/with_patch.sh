#!/bin/bash
# usage: with_patch.sh <patch.diff> <command...>
# Applies the patch to /repo's working tree, runs the command (evidence redirected to a
# scratch dir so committed evidence is not touched), and always restores /repo.
set -u
patch="$(realpath "$1")"; shift
if ! git -C /repo diff --quiet; then echo "refusing: /repo has uncommitted changes" >&2; exit 2; fi
git -C /repo apply "$patch" || { echo "patch does not apply" >&2; exit 2; }
trap 'git -C /repo checkout -- . ' EXIT
export VERIF_EVIDENCE_DIR=/verif/work/evidence-scratch
mkdir -p "$VERIF_EVIDENCE_DIR"
"$@"
rc=$?
exit $rc
