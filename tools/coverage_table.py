#!/usr/bin/env python3
"""Prints the markdown coverage table of DESIGN.md §11 from /verif/evidence/*.json
(usage: coverage_table.py [--splice] ; --splice replaces the table in DESIGN.md)."""
import json, sys, re

rows = ["| id | tier | evaluations | distinct non-trivial | wall | known-finding hits | parts (evaluations) |",
        "|----|------|-------------|----------------------|------|--------------------|---------------------|"]
for i in range(1, 21):
    pid = "C%02d" % i
    try:
        d = json.load(open(f"/verif/evidence/{pid}.json"))
    except Exception:
        rows.append(f"| {pid} | (no evidence file) | | | | | |")
        continue
    c = d["coverage"]
    parts = ", ".join("%s %s%s" % (p["name"], format(p["evaluations"], ","), " (exh.)" if p.get("exhaustive") else "") for p in c["parts"])
    kh = ", ".join(f"{k} {v}" for k, v in sorted(c.get("known_finding_hits", {}).items())) or "–"
    rows.append(f"| {pid} | {d['tier']} | {c['evaluations']:,} | {c['distinct_nontrivial']:,} | {d['wall_s']:.0f} s | {kh} | {parts} |")
table = "\n".join(rows)
if "--splice" in sys.argv:
    p = "/verif/DESIGN.md"
    s = open(p).read()
    m = re.search(r"\| id \|[^\n]*evaluations[^\n]*\n\|[-| ]+\n(?:\| C\d\d [^\n]*\n)+", s)
    assert m, "table not found"
    s = s[:m.start()] + table + "\n" + s[m.end():]
    open(p, "w").write(s)
    print("spliced")
else:
    print(table)
