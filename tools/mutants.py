#!/usr/bin/env python3
"""Sensitivity runs: apply hand-written mutants to /repo's working tree one at a time,
run the named checks (quick tier, evidence redirected), restore /repo.

usage: mutants.py <mutants.json> [--only name,...] [--tests] [--tier quick|thorough]
mutants.json: [{"name":..., "file":"src/x.rs", "old":..., "new":..., "props":["C05",...],
                "expect":"caught"|"silent"}]
Prints one line per (mutant, property): CAUGHT / missed / BUILD-FAIL, and with --tests
whether avt's own suite still passes with the mutant.
"""
import json, subprocess, sys, os, time

REPO = "/repo"

def sh(cmd, **kw):
    return subprocess.run(cmd, shell=True, stdout=subprocess.PIPE, stderr=subprocess.STDOUT, text=True, **kw)

def main():
    args = sys.argv[1:]
    path = args[0]
    only = None
    tests = False
    tier = "quick"
    i = 1
    while i < len(args):
        if args[i] == "--only":
            only = set(args[i + 1].split(",")); i += 1
        elif args[i] == "--tests":
            tests = True
        elif args[i] == "--tier":
            tier = args[i + 1]; i += 1
        i += 1
    muts = json.load(open(path))
    if sh("git -C /repo diff --quiet").returncode != 0:
        print("refusing: /repo has uncommitted changes"); sys.exit(2)
    env = dict(os.environ, VERIF_EVIDENCE_DIR="/verif/work/evidence-scratch")
    os.makedirs("/verif/work/evidence-scratch", exist_ok=True)
    results = []
    for m in muts:
        if only and m["name"] not in only:
            continue
        f = os.path.join(REPO, m["file"])
        src = open(f).read()
        if src.count(m["old"]) < 1:
            print(f"{m['name']}: pattern not found"); continue
        extra_src = None
        try:
            open(f, "w").write(src.replace(m["old"], m["new"], 1))
            if "extra" in m:
                ef = os.path.join(REPO, m["extra"]["file"])
                extra_src = (ef, open(ef).read())
                assert extra_src[1].count(m["extra"]["old"]) >= 1
                open(ef, "w").write(extra_src[1].replace(m["extra"]["old"], m["extra"]["new"], 1))
            tests_ok = None
            if tests:
                r = sh("cd /repo && cargo test --workspace --no-fail-fast --offline 2>&1 | grep -E '^test result|error(\\[|:)' ")
                tests_ok = ("FAILED" not in r.stdout) and ("error" not in r.stdout) and ("failed" not in r.stdout.replace("0 failed", ""))
            for p in m["props"]:
                t0 = time.time()
                r = sh(f"/verif/check {p} {tier}", env=env)
                dt = time.time() - t0
                if r.returncode == 1 and "VIOLATION" in r.stdout:
                    verdict = "CAUGHT"
                elif r.returncode == 0:
                    verdict = "missed"
                else:
                    verdict = f"exit{r.returncode}"
                first = next((l for l in r.stdout.splitlines() if l.startswith("counterexample") or l.startswith("regression")), "")
                exp = m.get("expect", "caught")
                flag = "" if (verdict == "CAUGHT") == (exp == "caught") else "   <<< UNEXPECTED"
                print(f"{m['name']:<38} {p} {verdict:<7} {dt:5.1f}s tests_pass={tests_ok} {first[:150]}{flag}", flush=True)
                results.append((m["name"], p, verdict))
        finally:
            open(f, "w").write(src)
            if extra_src:
                open(extra_src[0], "w").write(extra_src[1])
    sh("git -C /repo checkout -- .")

if __name__ == "__main__":
    main()
