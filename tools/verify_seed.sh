#!/bin/bash
# usage: verify_seed.sh <ID> <dir-with-seed-files>   (dir contains patch.diff, demo.rs, meta.json)
# Confirms independently, in a fresh scratch worktree of /repo: the patch applies and
# compiles, avt's own suite passes with it, the demo passes without and fails with it.
# Then copies the files to /verif/seeded/<ID>/ and runs every quick check against the
# patched /repo working tree (restored afterwards). Results: /verif/seeded/<ID>/verify.log
set -u
id="$1"; src="$2"; name="${3:-$id}"
wt=/tmp/seedv/$name
out=/verif/seeded/$name
mkdir -p "$out" /tmp/seedv
cp "$src/patch.diff" "$src/demo.rs" "$src/meta.json" "$out/" 2>/dev/null
log="$out/verify.log"; : > "$log"
export CARGO_TARGET_DIR=/tmp/seedv-target CARGO_NET_OFFLINE=true
git -C /repo worktree remove --force "$wt" >/dev/null 2>&1
git -C /repo worktree add --detach "$wt" HEAD >/dev/null 2>&1 || { echo "worktree failed" | tee -a "$log"; exit 2; }
cd "$wt" || exit 2
cp "$out/demo.rs" tests/seed_demo.rs
echo "== demo on the unmodified tree (must pass)" >> "$log"
cargo test --offline --test seed_demo >> "$log" 2>&1; demo_clean=$?
git apply "$out/patch.diff" >> "$log" 2>&1 || { echo "PATCH DOES NOT APPLY" | tee -a "$log"; }
echo "== demo with the change (must fail)" >> "$log"
cargo test --offline --test seed_demo >> "$log" 2>&1; demo_patched=$?
rm tests/seed_demo.rs
echo "== avt's own suite with the change (must pass)" >> "$log"
cargo test --workspace --no-fail-fast --offline >> "$log" 2>&1; suite=$?
cd /; git -C /repo worktree remove --force "$wt" >/dev/null 2>&1
echo "demo_clean_exit=$demo_clean demo_patched_exit=$demo_patched suite_exit=$suite" | tee -a "$log"
if [ $demo_clean -ne 0 ] || [ $demo_patched -eq 0 ] || [ $suite -ne 0 ]; then echo "SEED NOT CONFIRMED: $name" | tee -a "$log"; exit 1; fi
# run our checks against it
if [ -n "${CONFIRM_ONLY:-}" ]; then exit 0; fi   # confirmation only (checks run later, e.g. while /repo is in use)
if ! git -C /repo diff --quiet; then echo "/repo dirty, not running checks" | tee -a "$log"; exit 2; fi
git -C /repo apply "$out/patch.diff" || exit 2
export VERIF_EVIDENCE_DIR=/verif/work/evidence-scratch; mkdir -p $VERIF_EVIDENCE_DIR
unset CARGO_TARGET_DIR
caught=""
for p in ${CHECKS:-C01 C02 C03 C04 C05 C06 C07 C08 C09 C10 C11 C12 C13 C14 C15 C16 C17 C18 C19 C20}; do
  r=$(/verif/check $p quick 2>&1); rc=$?
  if [ $rc -eq 1 ]; then caught="$caught $p"; echo "-- $p CAUGHT: $(echo "$r" | grep -m1 -E '^(counterexample|regression)' | cut -c1-300)" >> "$log";
  elif [ $rc -ne 0 ]; then echo "-- $p exit $rc: $(echo "$r" | tail -2)" >> "$log"; fi
done
git -C /repo checkout -- .
echo "checks_run: ${CHECKS:-all}" >> "$log"
echo "caught_by:$caught" | tee -a "$log"
