#!/usr/bin/env python3
"""Regenerates /verif/MANIFEST.json from the table below (single source of truth for the
per-property level text)."""
import json, subprocess, sys

IMPLEMENTED = sys.argv[1].split(",") if len(sys.argv) > 1 else []

P = {
 "C01": ("random + enumerated histories; oracle = every call returns (overflow/debug checks on) + hang watchdog",
         "Generated histories of every public operation over structured and raw input never panic in an overflow-checked build and never exceed the watchdog; cases built for recursion depth and allocation size run in child processes so that an abort is seen; this is exploration, not a termination proof.", "§4 C01"),
 "C02": ("invariant checked after every call over generated histories (raw + tracked by reference model)",
         "Geometry invariants are asserted after every single public call (incl. each feed()) of generated histories with resizes and buffer switches; wrap-pending legitimacy is decided by the one-step reference model on in-domain input.", "§4 C02"),
 "C03": ("exhaustive differential against an independent table-driven reference parser + metamorphic memorylessness + metamorphic relation for non-input calls between the pieces of one sequence",
         "All 14 states x all Unicode scalar values (several backgrounds each), the full dispatch table and strings of up to 100 000 characters are compared exhaustively with a reference parser transcribed from the Williams diagram; all ordered pairs of a 635-sequence basis check memorylessness; an end-to-end leg compares Vt::feed_str with Vt::feed; random streams add depth; a resize or read-only call between two pieces of one sequence must not change its parse (Vt level, probe battery).", "§4 C03"),
 "C04": ("bounded-exhaustive + random model-based testing against a one-step reference spec with resynchronisation",
         "Every print-class step of enumerated tiny-screen op sequences and random histories is compared cell-for-cell (chars, pens, wrap marks, cursor) with an executable spec written from the statement.", "§4 C04"),
 "C05": ("bounded-exhaustive + random model-based testing against a one-step reference spec",
         "Every cursor command x parameter class x start cell x margin pair x origin mode on tiny screens exhaustively, plus random histories with resizes, compared with the spec; view must stay unchanged.", "§4 C05"),
 "C06": ("bounded-exhaustive + random model-based testing; scrollback relation checked line-by-line after every step",
         "Every scrolling command x count class x DECSTBM form x cursor row x pen x screen on tiny screens, all short command sequences, and random histories are compared with the spec including the scrollback growth relation.", "§4 C06"),
 "C07": ("bounded-exhaustive + random model-based testing; metamorphic mode-frame check under a probe battery",
         "Every editing command x count class x cursor cell x pen x mark pattern is compared with the spec; a metamorphic pair under the probe battery shows that nothing but the visible extent changed.", "§4 C07"),
 "C08": ("enumerated + random model-based testing of the SGR fold, observed through printed and blanked cells",
         "A PenSpec fold written from the statement is compared with the pens of printed, erased and scrolled-in cells through the public accessors for enumerated and random SGR sequences in every encoding.", "§4 C08"),
 "C09": ("round-trip + metamorphic (two widths) over generated texts; exhaustive (w,h) sweep",
         "Generated texts must come back from text() and from TextUnwrapper exactly, and identically at two different sizes; a fixed text set is swept over all widths/heights.", "§4 C09"),
 "C10": ("metamorphic relation on logical lines / logical cursor across generated resize chains",
         "The logical-line and logical-cursor relation stated by the property is checked before/after every resize of generated primary-screen histories.", "§4 C10"),
 "C11": ("round-trip through dump() judged by a behavioural probe battery + random continuations + exhaustive short parser prefixes (well-formed and malformed)",
         "Original and dump-restored terminals are compared under a fixed probe battery exposing each hidden component, every cut position of short histories, and random continuations; three listed known findings (K1 excluded by history, K2 and K3 recognised by semantic signatures on replicas) are counted, not reported; their neighbourhood is enumerated and must pass.", "§4 C11"),
 "C12": ("differential: whole input vs every chunking (all single cuts <=64 chars, all cut subsets <=10 chars, per-char feed_str and feed(), floods of up to 140 000 scrolls in one call)",
         "All chunkings of generated inputs (structured and raw) must agree on visible state, lines() (unlimited), and hidden modes under the probe battery.", "§4 C12"),
 "C13": ("invariant after every feed_str/resize over generated scroll-heavy histories with all drain patterns",
         "The retention bound, the L=0 and the alternate-screen clauses are asserted after every call across 12 limits, resizes and partially consumed Changes.", "§4 C13"),
 "C14": ("differential: limit-L terminal + collected scrollback vs unlimited terminal, exact Line equality, pieces routed through feed_str and feed(); TextCollector consequence",
         "For generated sessions the handed-out lines followed by lines() must equal the unlimited terminal's lines exactly; TextCollector must agree across limits and chunkings.", "§4 C14"),
 "C15": ("pure observation: view snapshot diff vs Changes.lines after every call, enumerated single commands + random",
         "Every row that differs between before and after a feed_str/resize call must be reported; checked for every mutating command alone and in random multi-command calls.", "§4 C15"),
 "C16": ("snapshot/compare around generated alternate-screen excursions (exact Line equality; logical-line relation with resizes)",
         "The primary is snapshotted before each entry and compared after each exit for all 9 enter/leave pairs, random excursions and resize chains.", "§4 C16"),
 "C17": ("behavioural read-out of the saved context on replicas at save and after restore, per screen, over enumerated pairs + random histories",
         "Position, pen, origin and auto-wrap are read behaviourally at every save and after every restore and must match per screen, with defaults when nothing was saved.", "§4 C17"),
 "C18": ("exhaustive width sweeps + random set/clear/resize sequences; stops read back through cursor movement; differential against a fresh terminal",
         "All widths, all resize pairs up to 140 columns, triples over boundary widths, and random customisation sequences are read back through HT/CBT and compared with the tracker and with a fresh terminal.", "§4 C18"),
 "C19": ("differential against a freshly built terminal under the probe battery + random continuations, from generated histories cut in every parser state",
         "After ESC c from generated states (every parser state, alternate screen, customised everything) the terminal must equal a fresh one in lines(), cursor, dump and under all probes and continuations.", "§4 C19"),
 "C20": ("enumerated + random inert items from generated prior states; oracle = nothing observable changes, no changed line, parser back in ground",
         "Every string kind x introducer x terminator x payload class and all unimplemented finals/markers/intermediates are fed after generated histories; view, lines(), cursor, dump and Changes must be untouched.", "§4 C20"),
}

NOT_YET = "check not built yet at this commit (it is being built in this order; see DESIGN.md §4)"

checks = []
na = []
for pid in sorted(P):
    tech, text, ref = P[pid]
    if pid in IMPLEMENTED:
        checks.append({
            "property_id": pid,
            "quick_cmd": f"./check {pid} quick",
            "thorough_cmd": f"./check {pid} thorough",
            "evidence_file": f"/verif/evidence/{pid}.json",
            "replay_cmd_template": f"./check {pid} quick --replay {{path}}",
            "engine": "vcheck",
            "level_claimed": {"category": "exploration", "text": text, "design_ref": ref},
            "level_note": "Generated-input search only: holds on everything generated, never a proof. Trusted base: the harness's reference parser / one-step spec / probe battery (written from the property statements and the vt100.net table), rustc, and avt's public API as the only observation channel.",
            "technique": tech + "; thorough tier adds a coverage-guided libFuzzer stage (cargo-fuzz) whose inputs drive the same generators and are judged by the same oracle",
        })
    else:
        na.append({"property_id": pid, "reason": NOT_YET})

manifest = {
    "version": 1,
    "setup_cmd": "cd /verif/harness && CARGO_NET_OFFLINE=true cargo build --release --offline",
    "hooks": {
        "guard": "--cfg avt_verif",
        "enable": "no hooks are needed: every observation goes through avt's public API (DESIGN.md §1); the guard name is reserved and unused",
        "baseline_off_cmd": "cd /repo && cargo test --workspace --no-fail-fast --offline",
        "source_commits": [],
        "add_only": True,
    },
    "engines": [
        {"name": "libfuzzer", "path": "/verif/fuzz", "serves_properties": sorted(IMPLEMENTED),
         "kind_free_text": "cargo-fuzz crate (targets structured, ops_total, parser_diff, chunk_split) used by the thorough tier of every check; built with cargo +nightly fuzz build -s none"},
        {"name": "vcheck", "path": "/verif/harness", "serves_properties": sorted(IMPLEMENTED),
         "kind_free_text": "Rust binary: deterministic seeded generators (choice source shared with the fuzz targets), bounded-exhaustive enumerators, reference parser + one-step spec + probe battery as oracles, concrete-case delta-debugging shrinker, JSON replay files"},
    ],
    "checks": checks,
    "notes": "Exit codes: 0 held, 1 VIOLATION line printed, 2 infrastructure problem (never a violation). Known findings: /verif/known_findings.json. Fix commits in /repo: see known_findings.json 'fixed' entries.",
    "not_applicable": na,
}
json.dump(manifest, open("/verif/MANIFEST.json", "w"), indent=1)
print("checks:", len(checks), "not_applicable:", len(na))
