#!/usr/bin/env python3
"""Systematic mutation campaign against avt, independent of /repo and /verif/target:
works on a private copy of the repository and of the harness under /tmp/mutcamp
(removed at the end), so it can run in the background while /repo and /verif are in use.

For every mutation site in avt's non-test source (comparison/arithmetic operator swaps,
boolean flips, +1/-1 changes, statement deletions) it
  1. writes the mutant, rebuilds the harness copy (which compiles the avt copy);
     compile errors are skipped;
  2. runs the quick tier of every property, fastest first, until one reports a VIOLATION
     ("killed by <id>");
  3. for survivors, runs avt's own test suite: a survivor that also passes avt's tests is
     listed for manual triage (equivalent mutant, outside every property, or a gap).
Results: /verif/work/mutation/results.jsonl (one line per mutant) and summary.txt.

usage: mutation_campaign.py [--max N] [--files a.rs,b.rs] [--threads N] [--shard i/n]
"""
import json, os, re, shutil, subprocess, sys, time

ROOT = "/tmp/mutcamp"
REPO = f"{ROOT}/repo"
HARN = f"{ROOT}/harness"
OUT = "/verif/work/mutation"
ORDER = ["C18", "C13", "C15", "C08", "C09", "C10", "C14", "C17", "C16", "C03", "C20", "C05", "C01", "C02", "C19", "C07", "C11", "C06", "C12", "C04"]

def sh(cmd, env=None, timeout=None):
    return subprocess.run(cmd, shell=True, stdout=subprocess.PIPE, stderr=subprocess.STDOUT, text=True, env=env, timeout=timeout)

def setup():
    shutil.rmtree(ROOT, ignore_errors=True)
    os.makedirs(ROOT)
    sh(f"rsync -a --exclude target --exclude .git /repo/ {REPO}/")
    sh(f"rsync -a /verif/harness/ {HARN}/")
    p = f"{HARN}/Cargo.toml"
    s = open(p).read().replace('avt = { path = "/repo" }', f'avt = {{ path = "{REPO}" }}')
    open(p, "w").write(s)
    open(f"{HARN}/.cargo/config.toml", "w").write(f'[net]\noffline = true\n[build]\ntarget-dir = "{ROOT}/target"\n')
    os.makedirs(f"{ROOT}/verif/work", exist_ok=True)
    shutil.copy("/verif/known_findings.json", f"{ROOT}/verif/known_findings.json")
    sh(f"rsync -a /verif/replays {ROOT}/verif/")
    os.makedirs(OUT, exist_ok=True)

def code_region(path):
    """lines of the file before `#[cfg(test)]\\nmod tests`"""
    lines = open(path).read().split("\n")
    for i, l in enumerate(lines):
        if l.strip() == "#[cfg(test)]" and i + 1 < len(lines) and lines[i + 1].startswith("mod tests"):
            return lines, i
    return lines, len(lines)

OPS = [
    (r" < ", " <= "), (r" <= ", " < "), (r" > ", " >= "), (r" >= ", " > "),
    (r" == ", " != "), (r" != ", " == "), (r" && ", " || "), (r" \|\| ", " && "),
    (r" \+ 1\b", " + 0"), (r" - 1\b", " - 0"), (r" \+ 1\b", " + 2"), (r" - 1\b", " - 2"),
    (r"\btrue\b", "false"), (r"\bfalse\b", "true"),
    (r" \+ ", " - "), (r" - ", " + "), (r"\.min\(", ".max("), (r"\.max\(", ".min("),
    (r"\.\.=", ".."), (r"\b0\.\.", "1.."),
]

def sites(files):
    out = []
    for f in files:
        path = f"{REPO}/src/{f}"
        lines, end = code_region(path)
        for i in range(end):
            l = lines[i]
            st = l.strip()
            if not st or st.startswith("//") or st.startswith("#[") or st.startswith("use ") or st.startswith("pub use") or st.startswith("mod ") or st.startswith("pub mod"):
                continue
            for pat, rep in OPS:
                for m in re.finditer(pat, l):
                    new = l[:m.start()] + re.sub(pat, rep, l[m.start():m.end()]) + l[m.end():]
                    if new != l:
                        out.append((f, i, l, new, f"{pat.strip()} -> {rep.strip()}"))
            # statement deletion: a simple statement line ending in ';' inside a function body
            if st.endswith(";") and not st.startswith(("let ", "return", "pub ", "const ", "use ", "type ", "static ")) and not st.startswith("}") and "=>" not in st and l.startswith("        "):
                out.append((f, i, l, l[: len(l) - len(l.lstrip())] + "// " + st, "delete statement"))
    return out

def main():
    args = sys.argv[1:]
    maxn = None
    files = ["terminal.rs", "buffer.rs", "line.rs", "parser.rs", "tabs.rs", "vt.rs", "util.rs", "pen.rs", "cell.rs", "charset.rs", "color.rs", "terminal/dirty_lines.rs", "terminal/cursor.rs"]
    threads = 8
    shard = (0, 1)
    i = 0
    while i < len(args):
        if args[i] == "--max":
            maxn = int(args[i + 1]); i += 1
        elif args[i] == "--files":
            files = args[i + 1].split(","); i += 1
        elif args[i] == "--threads":
            threads = int(args[i + 1]); i += 1
        elif args[i] == "--shard":
            a, b = args[i + 1].split("/"); shard = (int(a), int(b)); i += 1
        i += 1
    setup()
    env = dict(os.environ, VERIF_DIR=f"{ROOT}/verif", VERIF_EVIDENCE_DIR=f"{ROOT}/verif/evidence", CARGO_NET_OFFLINE="true")
    r = sh(f"cd {HARN} && cargo build --release --offline", env=env)
    if r.returncode != 0:
        print("baseline build failed\n" + r.stdout[-2000:]); sys.exit(2)
    allsites = sites(files)
    # deterministic thinning: stable order, shard, cap
    allsites = [s for k, s in enumerate(allsites) if k % shard[1] == shard[0]]
    if maxn:
        step = max(1, len(allsites) // maxn)
        allsites = allsites[::step][:maxn]
    print(f"{len(allsites)} mutants", flush=True)
    res_path = f"{OUT}/results-{shard[0]}of{shard[1]}.jsonl"
    done = set()
    if os.path.exists(res_path):
        for l in open(res_path):
            try:
                d = json.loads(l); done.add((d["file"], d["line"], d["new"]))
            except Exception:
                pass
    out = open(res_path, "a")
    vcheck = f"{ROOT}/target/release/vcheck"
    for k, (f, ln, old, new, op) in enumerate(allsites):
        if (f, ln, new) in done:
            continue
        path = f"{REPO}/src/{f}"
        src = open(path).read()
        lines = src.split("\n")
        assert lines[ln] == old
        lines[ln] = new
        t0 = time.time()
        rec = {"file": f, "line": ln, "old": old.strip(), "new": new.strip(), "op": op}
        try:
            open(path, "w").write("\n".join(lines))
            r = sh(f"cd {HARN} && cargo build --release --offline 2>&1 | tail -3", env=env)
            if "error" in r.stdout and "Finished" not in r.stdout:
                rec["status"] = "compile-error"
            else:
                killed = None
                for p in ORDER:
                    try:
                        r = sh(f"cd {ROOT}/verif && {vcheck} {p} quick --threads {threads}", env=env, timeout=600)
                    except subprocess.TimeoutExpired:
                        killed = p + "(timeout)"; break
                    if r.returncode == 1 and "VIOLATION" in r.stdout:
                        killed = p
                        rec["first"] = next((l for l in r.stdout.splitlines() if l.startswith(("counterexample", "regression"))), "")[:200]
                        break
                    if r.returncode == 2:
                        killed = p + "(exit2)"
                        rec["first"] = r.stdout[-300:]
                        break
                if killed:
                    rec["status"] = "killed"; rec["by"] = killed
                else:
                    t = sh(f"cd {REPO} && CARGO_TARGET_DIR={ROOT}/target-tests cargo test --workspace --no-fail-fast --offline 2>&1 | grep -E '^test result|panicked|error\\[' | head -5", env=env, timeout=900)
                    ok = "FAILED" not in t.stdout and "failed" not in t.stdout.replace("0 failed", "") and "error[" not in t.stdout
                    rec["status"] = "SURVIVED"; rec["avt_tests_pass"] = ok
        finally:
            open(path, "w").write(src)
        rec["secs"] = round(time.time() - t0, 1)
        out.write(json.dumps(rec) + "\n"); out.flush()
        print(f"[{k+1}/{len(allsites)}] {f}:{ln+1} {op:<22} {rec['status']} {rec.get('by','')} {rec['secs']}s", flush=True)
    shutil.rmtree(ROOT, ignore_errors=True)

if __name__ == "__main__":
    main()
