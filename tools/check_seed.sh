#!/bin/bash
# usage: CHECKS="C16 C10" check_seed.sh <name>   — second half of verify_seed.sh for a seed
# already confirmed with CONFIRM_ONLY=1: applies seeded/<name>/patch.diff to /repo's working
# tree, runs the listed quick checks (evidence redirected), restores /repo, appends to verify.log
set -u
name="$1"; out=/verif/seeded/$name; log="$out/verify.log"
if ! git -C /repo diff --quiet; then echo "/repo dirty, not running checks" | tee -a "$log"; exit 2; fi
git -C /repo apply "$out/patch.diff" || exit 2
export VERIF_EVIDENCE_DIR=/verif/work/evidence-scratch; mkdir -p $VERIF_EVIDENCE_DIR
caught=""
for p in ${CHECKS:-C01 C02 C03 C04 C05 C06 C07 C08 C09 C10 C11 C12 C13 C14 C15 C16 C17 C18 C19 C20}; do
  r=$(timeout 600 /verif/check $p quick 2>&1); rc=$?
  if [ $rc -eq 1 ]; then caught="$caught $p"; echo "-- $p CAUGHT: $(echo "$r" | grep -m1 -E '^(counterexample|regression)' | cut -c1-300)" >> "$log";
  elif [ $rc -ne 0 ]; then echo "-- $p exit $rc: $(echo "$r" | tail -2)" >> "$log"; fi
done
git -C /repo checkout -- .
echo "checks_run: ${CHECKS:-all}" >> "$log"
echo "caught_by:$caught" | tee -a "$log"
