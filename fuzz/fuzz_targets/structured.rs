#![no_main]
//! bytes = choice sequence of the generators of the property named by VERIF_FUZZ_PROP
use libfuzzer_sys::fuzz_target;
use std::sync::OnceLock;
static PROP: OnceLock<String> = OnceLock::new();
fuzz_target!(|data: &[u8]| {
    let prop = PROP.get_or_init(|| std::env::var("VERIF_FUZZ_PROP").unwrap_or_else(|_| "C11".to_string()));
    avt_verif::fuzzing::structured(prop, data);
});
