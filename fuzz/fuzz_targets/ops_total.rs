#![no_main]
use libfuzzer_sys::fuzz_target;
fuzz_target!(|data: &[u8]| { avt_verif::fuzzing::ops_total(data); });
